//! C09 — the main process's verdict to a client matches what the workers did.
//!
//! Two parts:
//!
//! * a reusable **hub lab** (`HubLab`, `FakeWorker`, `HubClient`, `Peer`): a real
//!   `sozu::command::server::CommandHub` running in its own thread on a private unix command
//!   socket, its workers being scripted fake workers (harness end of a `Channel` pair, each
//!   backed by a dummy `sleep` child whose pid is what the hub SIGKILLs in `close_worker`);
//! * the C09 check: fault enumeration over worker behaviours x verbs x concurrent clients,
//!   judged by the verdict implication of the property statement.
//!
//! Everything is observed at the boundary: `Response`s read by scripted clients, what the
//! scripted workers received and were told to answer, liveness of the hub thread.

use std::{
    collections::{BTreeMap, BTreeSet, HashMap},
    fs,
    io::Write as _,
    os::fd::{AsRawFd, IntoRawFd, RawFd},
    os::unix::net::UnixStream as StdUnixStream,
    os::unix::process::ExitStatusExt,
    path::{Path, PathBuf},
    process::{Child, Command, Stdio},
    sync::{
        Arc, Mutex,
        atomic::{AtomicBool, AtomicU64, Ordering},
        mpsc,
    },
    thread::JoinHandle,
    time::{Duration, Instant},
};

use serde_json::{Value, json};
use sozu::command::server::CommandHub;
use sozu_command_lib::{
    channel::{Channel, ChannelError},
    config::Config,
    proto::command::{
        AddBackend, Cluster, ClusterInformation, ClusterInformations, ClusterMetrics, HardStop,
        ListWorkers, QueryClustersHashes, QueryMetricsOptions, Request, Response, ResponseContent,
        ResponseStatus, RunState, SocketAddress, SoftStop, Status, WorkerMetrics, WorkerRequest,
        WorkerResponse, request::RequestType, response_content::ContentType,
    },
    ready::Ready,
    scm_socket::ScmSocket,
};

use crate::common::{Ctx, PanicRec, Report, Rng, par::take_panics, par_cases};

// =================================================================================================
// Hub lab (pub, reusable by other hub-level checks)
// =================================================================================================

/// Harness end of a sozu `Channel`, driven non-blocking with our own `poll(2)` so that waits
/// have exact deadlines (the channel's own blocking mode has a 100 ms granularity).
pub struct Peer<Tx, Rx> {
    pub ch: Option<Channel<Tx, Rx>>,
    eof: bool,
}

pub enum Recv<T> {
    Msg(T),
    Timeout,
    /// the other side closed the connection
    Closed,
    Error(String),
}

fn poll_fd(fd: RawFd, events: i16, timeout: Duration) -> i16 {
    let mut p = libc::pollfd { fd, events, revents: 0 };
    let ms = timeout.as_millis().min(60_000) as i32;
    // SAFETY: one valid pollfd on the stack
    let r = unsafe { libc::poll(&mut p, 1, ms.max(0)) };
    if r > 0 { p.revents } else { 0 }
}

impl<Tx, Rx> Peer<Tx, Rx>
where
    Tx: std::fmt::Debug + prost::Message + Default,
    Rx: std::fmt::Debug + prost::Message + Default,
{
    pub fn new(mut ch: Channel<Tx, Rx>) -> Self {
        let _ = ch.nonblocking();
        Peer { ch: Some(ch), eof: false }
    }

    pub fn is_closed(&self) -> bool {
        self.ch.is_none()
    }

    /// frame and write one message (same framing code as sozu's own peers)
    pub fn send(&mut self, msg: &Tx) -> Result<(), String> {
        let Some(ch) = self.ch.as_mut() else {
            return Err("channel closed".into());
        };
        ch.write_message(msg).map_err(|e| format!("write_message: {e}"))?;
        let give_up = Instant::now() + Duration::from_secs(3);
        loop {
            ch.interest.insert(Ready::WRITABLE);
            ch.readiness.insert(Ready::WRITABLE);
            match ch.writable() {
                Ok(_) => {}
                Err(e) => return Err(format!("writable: {e}")),
            }
            if ch.back_buf.available_data() == 0 {
                return Ok(());
            }
            if Instant::now() > give_up {
                return Err("send: peer does not drain its socket".into());
            }
            poll_fd(ch.sock.as_raw_fd(), libc::POLLOUT, Duration::from_millis(50));
        }
    }

    /// `n` copies of one message, framed individually, written with as few syscalls as possible
    pub fn send_burst(&mut self, msg: &Tx, n: usize) -> Result<(), String> {
        let Some(ch) = self.ch.as_mut() else {
            return Err("channel closed".into());
        };
        for _ in 0..n.saturating_sub(1) {
            ch.write_message(msg).map_err(|e| format!("write_message: {e}"))?;
        }
        self.send(msg)
    }

    /// next message, waiting until `deadline` at most
    pub fn recv_until(&mut self, deadline: Instant) -> Recv<Rx> {
        let Some(ch) = self.ch.as_mut() else {
            return Recv::Closed;
        };
        loop {
            match ch.read_message() {
                Ok(m) => return Recv::Msg(m),
                Err(ChannelError::NothingRead) => {}
                Err(e) => return Recv::Error(format!("read_message: {e}")),
            }
            if self.eof {
                return Recv::Closed;
            }
            // look at the socket at least once, however late this thread got to run
            let now = Instant::now();
            let rev = poll_fd(ch.sock.as_raw_fd(), libc::POLLIN, deadline.saturating_duration_since(now));
            if rev == 0 {
                if Instant::now() >= deadline {
                    return Recv::Timeout;
                }
                continue;
            }
            ch.interest.insert(Ready::READABLE);
            ch.readiness.insert(Ready::READABLE);
            match ch.readable() {
                Ok(_) => {}
                Err(ChannelError::NoByteToRead) => self.eof = true,
                Err(ChannelError::Read(e)) => {
                    // ECONNRESET and friends: the peer is gone
                    let _ = e;
                    self.eof = true;
                }
                Err(e) => return Recv::Error(format!("readable: {e}")),
            }
        }
    }

    /// close the connection (the peer sees EOF / HUP)
    pub fn close(&mut self) {
        if let Some(ch) = self.ch.take() {
            // SAFETY: fd owned by `ch`, still open here
            unsafe { libc::shutdown(ch.sock.as_raw_fd(), libc::SHUT_RDWR) };
            drop(ch);
        }
    }
}

/// Harness side of one registered worker.
pub struct FakeWorker {
    pub id: u32,
    /// pid of the dummy child registered for this worker in the hub
    pub pid: i32,
    pub chan: Peer<WorkerResponse, WorkerRequest>,
    _scm_peer: StdUnixStream,
}

impl FakeWorker {
    pub fn recv_until(&mut self, deadline: Instant) -> Recv<WorkerRequest> {
        self.chan.recv_until(deadline)
    }
    pub fn send(&mut self, r: &WorkerResponse) -> Result<(), String> {
        self.chan.send(r)
    }
    pub fn close(&mut self) {
        self.chan.close()
    }
}

/// A command-socket client, framed exactly like `sozu::ctl` (`Channel<Request, Response>`).
pub struct HubClient {
    pub chan: Peer<Request, Response>,
}

impl HubClient {
    pub fn connect(sock_path: &str) -> Result<HubClient, String> {
        let ch: Channel<Request, Response> =
            Channel::from_path(sock_path, 16_384, 2_000_000).map_err(|e| format!("connect {sock_path}: {e}"))?;
        Ok(HubClient { chan: Peer::new(ch) })
    }
    pub fn send(&mut self, r: RequestType) -> Result<(), String> {
        let req: Request = r.into();
        self.chan.send(&req)
    }
    pub fn recv_until(&mut self, deadline: Instant) -> Recv<Response> {
        self.chan.recv_until(deadline)
    }
    /// send and read until the final (non-Processing) response; returns (processing, final)
    pub fn request(&mut self, r: RequestType, max_wait: Duration) -> Result<(Vec<Response>, Option<Response>), String> {
        self.send(r)?;
        let deadline = Instant::now() + max_wait;
        let mut processing = Vec::new();
        loop {
            match self.recv_until(deadline) {
                Recv::Msg(m) => {
                    if m.status == ResponseStatus::Processing as i32 {
                        processing.push(m);
                    } else {
                        return Ok((processing, Some(m)));
                    }
                }
                Recv::Timeout => return Ok((processing, None)),
                Recv::Closed => return Err("hub closed the client connection".into()),
                Recv::Error(e) => return Err(e),
            }
        }
    }
}

pub struct HubLab {
    pub sock_path: String,
    pub run_dir: PathBuf,
    pub thread_name: String,
    pub worker_timeout: Duration,
    /// the configuration the hub runs with
    pub config: Config,
    workers: Vec<FakeWorker>,
    children: Vec<Child>,
    hub_side_fds: Vec<RawFd>,
    join: Option<JoinHandle<()>>,
    exited: Arc<AtomicBool>,
    _dir_fd: Option<fs::File>,
}

#[derive(Debug, Default)]
pub struct ShutdownReport {
    /// the hub thread terminated (by itself or on the lab's stop request)
    pub hub_exited: bool,
    /// `run()` had already returned before the lab asked it to stop
    pub exited_before_stop: bool,
    pub panics: Vec<PanicRec>,
    /// per worker: the dummy child was found dead (SIGKILL) before the lab killed it
    pub killed_by_hub: Vec<bool>,
    pub notes: Vec<String>,
}

static LAB_COUNTER: AtomicU64 = AtomicU64::new(0);

impl HubLab {
    /// Start a hub with `n_workers` scripted workers. `tweak` may adjust the `Config`
    /// (`worker_count = 0` and `worker_automatic_restart = false` are enforced afterwards, or
    /// the hub would fork/exec real workers); `setup` runs inside the hub thread on the
    /// constructed hub before `run()` (e.g. to seed `hub.server.state`).
    pub fn start_with(
        root: &Path,
        n_workers: usize,
        worker_timeout_s: u32,
        tweak: impl FnOnce(&mut Config),
        setup: impl FnOnce(&mut CommandHub) + Send + 'static,
    ) -> Result<HubLab, String> {
        let n = LAB_COUNTER.fetch_add(1, Ordering::SeqCst);
        let run_dir = root.join(format!("build/run-C09-{}-{}", std::process::id(), n));
        fs::create_dir_all(&run_dir).map_err(|e| format!("mkdir {}: {e}", run_dir.display()))?;
        let mut dir_fd = None;
        let mut sock_path = run_dir.join("sock").to_string_lossy().into_owned();
        if sock_path.len() > 100 {
            // sun_path is 108 bytes: go through a short /proc/self/fd alias of the directory
            let d = fs::File::open(&run_dir).map_err(|e| format!("open run dir: {e}"))?;
            sock_path = format!("/proc/self/fd/{}/sock", d.as_raw_fd());
            dir_fd = Some(d);
        }
        let cfg_path = run_dir.join("c.toml");
        fs::write(
            &cfg_path,
            format!(
                "command_socket = \"./sock\"\nworker_count = 0\nworker_automatic_restart = false\nworker_timeout = {worker_timeout_s}\nlog_level = \"off\"\nlog_target = \"stdout\"\ndisable_cluster_metrics = false\nactivate_listeners = false\n"
            ),
        )
        .map_err(|e| format!("write config: {e}"))?;
        let mut config = Config::load_from_path(&cfg_path.to_string_lossy()).map_err(|e| format!("load config: {e}"))?;
        tweak(&mut config);
        config.worker_count = 0;
        config.worker_automatic_restart = false;
        let worker_timeout = Duration::from_secs(config.worker_timeout as u64);

        let mut children = Vec::new();
        for _ in 0..n_workers {
            match Command::new("sleep")
                .arg("100000")
                .stdin(Stdio::null())
                .stdout(Stdio::null())
                .stderr(Stdio::null())
                .spawn()
            {
                Ok(c) => children.push(c),
                Err(e) => {
                    for mut c in children {
                        let _ = c.kill();
                        let _ = c.wait();
                    }
                    let _ = fs::remove_dir_all(&run_dir);
                    return Err(format!("spawn dummy child: {e}"));
                }
            }
        }
        let pids: Vec<i32> = children.iter().map(|c| c.id() as i32).collect();

        let thread_name = format!("c09-hub-{}-{}", std::process::id(), n);
        let exited = Arc::new(AtomicBool::new(false));
        type Ends = Vec<(u32, i32, Channel<WorkerResponse, WorkerRequest>, StdUnixStream, RawFd)>;
        let (tx, rx) = mpsc::channel::<Result<Ends, String>>();
        let join = {
            let sock_path = sock_path.clone();
            let config = config.clone();
            let exited = exited.clone();
            let pids = pids.clone();
            std::thread::Builder::new()
                .name(thread_name.clone())
                .spawn(move || {
                    struct Flag(Arc<AtomicBool>);
                    impl Drop for Flag {
                        fn drop(&mut self) {
                            self.0.store(true, Ordering::SeqCst);
                        }
                    }
                    let _flag = Flag(exited);
                    let build = || -> Result<(CommandHub, Ends), String> {
                        let listener =
                            mio::net::UnixListener::bind(&sock_path).map_err(|e| format!("bind {sock_path}: {e}"))?;
                        let buf = config.command_buffer_size;
                        let max = config.max_command_buffer_size;
                        let mut hub = CommandHub::new(listener, config, "/nonexistent/sozu".to_owned())
                            .map_err(|e| format!("CommandHub::new: {e}"))?;
                        let mut ends = Vec::new();
                        for (i, pid) in pids.iter().enumerate() {
                            let (hub_end, worker_end): (
                                Channel<WorkerRequest, WorkerResponse>,
                                Channel<WorkerResponse, WorkerRequest>,
                            ) = Channel::generate_nonblocking(buf, max).map_err(|e| format!("channel pair: {e}"))?;
                            let (scm_hub, scm_worker) = StdUnixStream::pair().map_err(|e| format!("scm pair: {e}"))?;
                            let scm_fd = scm_hub.into_raw_fd();
                            let scm = ScmSocket::new(scm_fd).map_err(|e| format!("ScmSocket::new: {e}"))?;
                            hub.server
                                .register_worker(i as u32, *pid, hub_end, scm)
                                .map_err(|e| format!("register_worker: {e}"))?;
                            ends.push((i as u32, *pid, worker_end, scm_worker, scm_fd));
                        }
                        Ok((hub, ends))
                    };
                    match build() {
                        Ok((mut hub, ends)) => {
                            // sozu's logger is thread-local and prints errors to stdout when
                            // nobody initialised it: silence it for this hub thread
                            sozu_command_lib::logging::LOGGER.with(|l| {
                                l.borrow_mut().set_directives(sozu_command_lib::logging::parse_logging_spec("off").0)
                            });
                            setup(&mut hub);
                            let _ = tx.send(Ok(ends));
                            let _ = hub.run();
                        }
                        Err(e) => {
                            let _ = tx.send(Err(e));
                        }
                    }
                })
                .map_err(|e| format!("spawn hub thread: {e}"))?
        };
        let mut lab = HubLab {
            sock_path,
            run_dir,
            thread_name,
            worker_timeout,
            config,
            workers: Vec::new(),
            children,
            hub_side_fds: Vec::new(),
            join: Some(join),
            exited,
            _dir_fd: dir_fd,
        };
        match rx.recv_timeout(Duration::from_secs(20)) {
            Ok(Ok(ends)) => {
                for (id, pid, ch, scm_peer, fd) in ends {
                    lab.hub_side_fds.push(fd);
                    lab.workers.push(FakeWorker { id, pid, chan: Peer::new(ch), _scm_peer: scm_peer });
                }
                Ok(lab)
            }
            Ok(Err(e)) => {
                let _ = lab.shutdown();
                Err(e)
            }
            Err(_) => {
                let rep = lab.shutdown();
                Err(format!("hub thread did not come up: {:?}", rep.panics))
            }
        }
    }

    pub fn start(root: &Path, n_workers: usize, worker_timeout_s: u32, tweak: impl FnOnce(&mut Config)) -> Result<HubLab, String> {
        Self::start_with(root, n_workers, worker_timeout_s, tweak, |_| {})
    }

    /// hand the scripted workers to the caller (each can move to its own thread)
    pub fn take_workers(&mut self) -> Vec<FakeWorker> {
        std::mem::take(&mut self.workers)
    }

    pub fn worker_pids(&self) -> Vec<i32> {
        self.children.iter().map(|c| c.id() as i32).collect()
    }

    pub fn client(&self) -> Result<HubClient, String> {
        HubClient::connect(&self.sock_path)
    }

    pub fn hub_thread_finished(&self) -> bool {
        self.exited.load(Ordering::SeqCst)
    }

    /// Stop the hub thread (closing the workers still held by the lab, then a HardStop from a
    /// fresh client), join it, collect its panics, kill and reap the dummy children, remove the
    /// run directory. Workers handed out with `take_workers` must have been dropped/closed by
    /// the caller (otherwise the stop waits one worker timeout for them).
    pub fn shutdown(&mut self) -> ShutdownReport {
        let mut rep = ShutdownReport::default();
        if self.join.is_none() {
            rep.hub_exited = true;
            return rep;
        }
        // `run()` returning and the thread's exit flag are a few scheduler quanta apart: give a
        // hub that is on its way out the time to get there before deciding who stopped it
        let t0 = Instant::now();
        while !self.hub_thread_finished() && t0.elapsed() < Duration::from_millis(if self.workers.is_empty() { 150 } else { 0 }) {
            std::thread::sleep(Duration::from_millis(2));
        }
        rep.exited_before_stop = self.hub_thread_finished();
        if rep.exited_before_stop && t0.elapsed() > Duration::from_millis(1) {
            rep.notes.push(format!("hub thread exit observed {} ms after shutdown began", t0.elapsed().as_millis()));
        }
        for w in self.workers.iter_mut() {
            w.close();
        }
        self.workers.clear();
        if !self.hub_thread_finished() {
            std::thread::sleep(Duration::from_millis(20));
            for attempt in 0..2 {
                if self.hub_thread_finished() {
                    break;
                }
                match self.client() {
                    Ok(mut c) => {
                        let wait = self.worker_timeout + Duration::from_secs(2);
                        match c.request(RequestType::HardStop(HardStop {}), wait) {
                            Ok((_, Some(_))) => {}
                            Ok((_, None)) => rep.notes.push(format!("stop attempt {attempt}: no answer to HardStop")),
                            Err(e) => rep.notes.push(format!("stop attempt {attempt}: {e}")),
                        }
                        let until = Instant::now() + Duration::from_secs(3);
                        while !self.hub_thread_finished() && Instant::now() < until {
                            std::thread::sleep(Duration::from_millis(5));
                        }
                    }
                    Err(e) => {
                        rep.notes.push(format!("stop attempt {attempt}: {e}"));
                        std::thread::sleep(Duration::from_millis(100));
                    }
                }
            }
        }
        if self.hub_thread_finished() {
            if let Some(j) = self.join.take() {
                let _ = j.join();
            }
            rep.hub_exited = true;
        } else {
            // cannot kill a thread: leave it detached; it dies with the process
            rep.notes.push("hub thread could not be stopped; detached".into());
            self.join.take();
        }
        rep.panics = take_panics(&self.thread_name);
        for mut c in std::mem::take(&mut self.children) {
            let mut killed = false;
            match c.try_wait() {
                Ok(Some(st)) => killed = st.signal() == Some(libc::SIGKILL),
                _ => {
                    let _ = c.kill();
                    if rep.hub_exited {
                        let _ = c.wait();
                    } else {
                        // do not reap: a still-running hub must never find this pid reused
                        std::mem::forget(c);
                    }
                }
            }
            rep.killed_by_hub.push(killed);
        }
        if rep.hub_exited {
            for fd in std::mem::take(&mut self.hub_side_fds) {
                // SAFETY: fds created by the lab for the hub's ScmSockets, which never close them
                unsafe { libc::close(fd) };
            }
        }
        let _ = fs::remove_dir_all(&self.run_dir);
        rep
    }
}

impl Drop for HubLab {
    fn drop(&mut self) {
        if self.join.is_some() || !self.children.is_empty() {
            let _ = self.shutdown();
        }
    }
}

// =================================================================================================
// C09 scenario model
// =================================================================================================

const WORKER_TIMEOUT_S: u32 = 1;
/// How much slower than a quiet development machine this run is (x1000), measured at start by
/// `calibrate`: every wall-clock margin of the check is multiplied by it.
static TIME_SCALE_MILLI: AtomicU64 = AtomicU64::new(1000);

/// `ms` milliseconds on a quiet machine
fn scaled_ms(ms: u64) -> Duration {
    Duration::from_micros(ms * TIME_SCALE_MILLI.load(Ordering::Relaxed))
}

/// how long after worker_timeout a final answer may still arrive before the request counts as
/// unanswered (and is re-run)
fn slack() -> Duration {
    scaled_ms(3000)
}

/// how long after the worker timeout a "late" worker answers: the hub must have noticed its own
/// deadline within this margin
fn late_after_timeout() -> Duration {
    scaled_ms(500)
}

/// Round trips of a trivial Status through a hub with one prompt worker, and the overshoot of
/// short sleeps: how late threads of this process get to run right now.
fn calibrate(root: &Path) -> Value {
    let mut rtts: Vec<u64> = Vec::new();
    let mut overshoot_us = 0u64;
    for _ in 0..20 {
        let t = Instant::now();
        std::thread::sleep(Duration::from_millis(2));
        overshoot_us = overshoot_us.max((t.elapsed().as_micros() as u64).saturating_sub(2000));
    }
    if let Ok(mut lab) = HubLab::start(root, 1, WORKER_TIMEOUT_S, |_| {}) {
        let mut workers = lab.take_workers();
        let stop = AtomicBool::new(false);
        std::thread::scope(|sc| {
            let w = &mut workers[0];
            let stop = &stop;
            sc.spawn(move || {
                while !stop.load(Ordering::SeqCst) {
                    if let Recv::Msg(m) = w.recv_until(Instant::now() + Duration::from_millis(20)) {
                        let _ = w.send(&resp(&m.id, ResponseStatus::Ok, "ok".into(), None));
                    }
                }
            });
            if let Ok(mut c) = lab.client() {
                for _ in 0..30 {
                    let t = Instant::now();
                    if let Ok((_, Some(_))) = c.request(RequestType::Status(Status {}), Duration::from_secs(10)) {
                        rtts.push(t.elapsed().as_micros() as u64);
                    }
                }
            }
            stop.store(true, Ordering::SeqCst);
        });
        drop(workers);
        let _ = lab.shutdown();
    }
    rtts.sort_unstable();
    let p90 = rtts.get(rtts.len() * 9 / 10).copied().unwrap_or(0);
    // a quiet machine: p90 round trip well under 2 ms, sleep overshoot under 1 ms
    let scale = (p90 as f64 / 2000.0).max(overshoot_us as f64 / 2000.0).clamp(1.0, 8.0);
    TIME_SCALE_MILLI.store((scale * 1000.0) as u64, Ordering::Relaxed);
    json!({"status_round_trips": rtts.len(), "round_trip_us_median": rtts.get(rtts.len() / 2), "round_trip_us_p90": p90,
           "max_sleep_overshoot_us": overshoot_us, "time_scale": scale})
}
/// unknown-id answers per burst of a talkative worker
const CHATTER_BURST: usize = 3000;
/// scenarios with two overlapping deadlines (see gen_scenario)
const OVERLAP_CASES: u64 = 12;
/// scenarios where a worker answers and closes its channel while the hub thread is held busy
const SAME_TICK_CASES: u64 = 24;
/// LoadState of sound / damaged / unreadable state files
const DAMAGED_STATE_CASES: u64 = 16;

#[derive(Clone, Copy, Debug, PartialEq, Eq, PartialOrd, Ord, Hash)]
enum BehClass {
    Ok,
    Failure,
    Silent,
    Close,
    DupOk,
    LateOk,
    Processing,
    UnknownId,
    /// writes its successful final answer and closes the channel at once (what a worker that
    /// exits right after acknowledging does): the hub sees readable and hang-up together
    OkThenClose,
    /// never a final answer, but a PROCESSING notice more often than once per worker timeout
    EndlessProcessing,
}

const CLASSES: [BehClass; 10] = [
    BehClass::Ok,
    BehClass::Failure,
    BehClass::Silent,
    BehClass::Close,
    BehClass::DupOk,
    BehClass::LateOk,
    BehClass::Processing,
    BehClass::UnknownId,
    BehClass::OkThenClose,
    BehClass::EndlessProcessing,
];

impl BehClass {
    fn name(self) -> &'static str {
        match self {
            BehClass::Ok => "ok",
            BehClass::Failure => "failure",
            BehClass::Silent => "silent",
            BehClass::Close => "close",
            BehClass::DupOk => "dup_ok",
            BehClass::LateOk => "late_ok",
            BehClass::Processing => "processing_then_final",
            BehClass::UnknownId => "unknown_id",
            BehClass::OkThenClose => "ok_then_close",
            BehClass::EndlessProcessing => "endless_processing",
        }
    }
    /// the worker never sends a final answer and never closes: a soft stop, which has no
    /// deadline by design, legitimately waits for such a worker for ever
    fn never_ends(self) -> bool {
        matches!(self, BehClass::Silent | BehClass::UnknownId | BehClass::EndlessProcessing)
    }
}

/// what one worker does with one client request
#[derive(Clone, Debug)]
struct Beh {
    class: BehClass,
    /// delay of the (first) final answer / of the close, ms after receipt
    delay_ms: u64,
    /// DupOk: gap before the second Ok; Processing: number of notices; EndlessProcessing:
    /// period of the notices in ms
    k: u64,
    /// Processing: the final is a failure
    final_fail: bool,
    /// multi-message verbs: index of the message the behaviour applies to (others: Ok at once)
    target_msg: usize,
}

impl Beh {
    fn json(&self) -> Value {
        json!({"class": self.class.name(), "delay_ms": self.delay_ms, "k": self.k,
               "final_failure": self.final_fail, "on_message": self.target_msg})
    }
    fn plain_ok(delay_ms: u64) -> Beh {
        Beh { class: BehClass::Ok, delay_ms, k: 0, final_fail: false, target_msg: 0 }
    }
}

#[derive(Clone, Copy, Debug, PartialEq, Eq, PartialOrd, Ord, Hash)]
enum Verb {
    AddCluster,
    AddBackend,
    QueryClusterById,
    QueryClustersHashes,
    QueryMetrics,
    Status,
    LoadState,
    Reload,
    HardStop,
    SoftStop,
}

impl Verb {
    fn family(self) -> &'static str {
        match self {
            Verb::AddCluster | Verb::AddBackend => "mutating",
            Verb::QueryClusterById | Verb::QueryClustersHashes => "query",
            Verb::QueryMetrics => "metrics",
            Verb::Status => "status",
            Verb::LoadState => "load_state",
            Verb::Reload => "reload",
            Verb::HardStop => "hard_stop",
            Verb::SoftStop => "soft_stop",
        }
    }
    fn name(self) -> &'static str {
        match self {
            Verb::AddCluster => "AddCluster",
            Verb::AddBackend => "AddBackend",
            Verb::QueryClusterById => "QueryClusterById",
            Verb::QueryClustersHashes => "QueryClustersHashes",
            Verb::QueryMetrics => "QueryMetrics",
            Verb::Status => "Status",
            Verb::LoadState => "LoadState",
            Verb::Reload => "ReloadConfiguration",
            Verb::HardStop => "HardStop",
            Verb::SoftStop => "SoftStop",
        }
    }
    /// verbs whose worker-side request carries nothing that identifies the client request: at
    /// most one of each kind is in flight per hub
    fn untagged(self) -> bool {
        matches!(self, Verb::Status | Verb::QueryClustersHashes | Verb::HardStop | Verb::SoftStop)
    }
    fn is_stop(self) -> bool {
        matches!(self, Verb::HardStop | Verb::SoftStop)
    }
}

const FAMILY_VERBS: [Verb; 8] = [
    Verb::AddCluster,
    Verb::QueryClusterById,
    Verb::QueryMetrics,
    Verb::Status,
    Verb::LoadState,
    Verb::Reload,
    Verb::HardStop,
    Verb::SoftStop,
];

/// what is wrong with the state file of a LoadState
#[derive(Clone, Copy, Debug, PartialEq, Eq)]
enum Damage {
    /// a sound file
    None,
    /// valid records, then a record cut in the middle (an interrupted `state save`)
    TruncatedTail,
    /// valid records, then a terminated record that is not a request
    GarbageTail,
    /// nothing readable at all (nothing is ever handed to the workers)
    AllGarbage,
}

impl Damage {
    fn name(self) -> &'static str {
        match self {
            Damage::None => "sound",
            Damage::TruncatedTail => "valid_records_then_truncated_record",
            Damage::GarbageTail => "valid_records_then_garbage_record",
            Damage::AllGarbage => "no_readable_record",
        }
    }
}

#[derive(Clone, Debug)]
struct Req {
    verb: Verb,
    tag: String,
    /// number of worker-side messages one worker receives for this request
    n_msgs: usize,
    /// per worker
    beh: Vec<Beh>,
    /// pause before sending, ms
    pre_delay_ms: u64,
    /// LoadState only
    damage: Damage,
    /// keep the hub thread busy (another client's SaveState into a FIFO nobody reads yet) from
    /// .0 ms to .1 ms after this request was sent
    stall_ms: Option<(u64, u64)>,
}

impl Req {
    fn new(verb: Verb, tag: String, n_msgs: usize, beh: Vec<Beh>, pre_delay_ms: u64) -> Req {
        Req { verb, tag, n_msgs, beh, pre_delay_ms, damage: Damage::None, stall_ms: None }
    }
}

#[derive(Clone, Debug)]
struct Scenario {
    case: u64,
    seed: u64,
    workers: usize,
    /// clients[c] = requests sent in sequence on one connection
    clients: Vec<Vec<Req>>,
    /// a stop verb sent by a last client once all others are done
    stop: Option<Req>,
    exhaustive_block: bool,
    /// workers whose script closes the channel before any request (isolated re-runs only)
    pre_closed: Vec<usize>,
    /// workers that, besides following their script, keep sending answers with unknown ids
    /// while a client request is in flight
    chatty: Vec<usize>,
    /// an assignment that is not run (soft stop with a worker that never ends: waits by design)
    skipped_by_design: bool,
}

impl Scenario {
    fn new(case: u64, seed: u64, workers: usize, clients: Vec<Vec<Req>>, stop: Option<Req>) -> Scenario {
        Scenario { case, seed, workers, clients, stop, exhaustive_block: false, pre_closed: vec![], chatty: vec![], skipped_by_design: false }
    }
    /// a single request: a stop verb goes to the stop slot
    fn single(case: u64, seed: u64, workers: usize, req: Req) -> Scenario {
        if req.verb.is_stop() { Scenario::new(case, seed, workers, vec![], Some(req)) } else { Scenario::new(case, seed, workers, vec![vec![req]], None) }
    }
}

fn req_json(r: &Req) -> Value {
    json!({"verb": r.verb.name(), "tag": r.tag, "worker_messages": r.n_msgs, "pre_delay_ms": r.pre_delay_ms,
           "state_file": if r.verb == Verb::LoadState { Some(r.damage.name()) } else { None },
           "hub_thread_held_busy_ms_after_send": r.stall_ms.map(|(a, b)| vec![a, b]),
           "behaviours_by_worker": r.beh.iter().map(|b| b.json()).collect::<Vec<_>>()})
}

fn scenario_json(s: &Scenario) -> Value {
    json!({"case": s.case, "seed": s.seed, "workers": s.workers, "worker_timeout_s": WORKER_TIMEOUT_S,
           "clients": s.clients.iter().map(|c| c.iter().map(req_json).collect::<Vec<_>>()).collect::<Vec<_>>(),
           "stop": s.stop.as_ref().map(req_json), "workers_closed_before_any_request": s.pre_closed,
           "workers_flooding_unknown_id_answers": s.chatty})
}

fn gen_beh(rng: &mut Rng, class: BehClass, n_msgs: usize) -> Beh {
    let delay_ms = *rng.pick(&[0u64, 0, 20, 60, 150, 300]);
    let (k, final_fail) = match class {
        BehClass::DupOk => (*rng.pick(&[0u64, 10, 80]), false),
        BehClass::Processing => (rng.range(1, 3), rng.chance(1, 4)),
        BehClass::EndlessProcessing => (*rng.pick(&[150u64, 300, 600]), false),
        _ => (0, false),
    };
    Beh {
        class,
        delay_ms,
        k,
        final_fail,
        target_msg: if n_msgs > 1 && rng.bool() { n_msgs - 1 } else { 0 },
    }
}

fn n_msgs_for(verb: Verb, rng: &mut Rng) -> usize {
    match verb {
        Verb::LoadState => rng.urange(1, 3),
        Verb::Reload => 2, // AddCluster + AddBackend generated from the cluster section
        _ => 1,
    }
}

const N_CLASSES: u64 = CLASSES.len() as u64;
const EXHAUSTIVE_PER_FAMILY: u64 = N_CLASSES + N_CLASSES * N_CLASSES;

fn exhaustive_block_len() -> u64 {
    FAMILY_VERBS.len() as u64 * EXHAUSTIVE_PER_FAMILY
}

/// case -> scenario, a pure function of (seed, case, plan sizes)
fn gen_scenario(seed: u64, case: u64, exhaustive_reps: u64, race_cases: u64) -> Scenario {
    let mut rng = Rng::for_case(seed, 9, case);
    let block = exhaustive_block_len();
    if case < block * exhaustive_reps {
        let idx = case % block;
        let fam = (idx / EXHAUSTIVE_PER_FAMILY) as usize;
        let a = idx % EXHAUSTIVE_PER_FAMILY;
        let classes: Vec<BehClass> = if a < N_CLASSES {
            vec![CLASSES[a as usize]]
        } else {
            vec![CLASSES[((a - N_CLASSES) / N_CLASSES) as usize], CLASSES[((a - N_CLASSES) % N_CLASSES) as usize]]
        };
        let mut verb = FAMILY_VERBS[fam];
        if case >= block {
            // later repetitions vary the verb inside the family
            verb = match verb {
                Verb::AddCluster if rng.bool() => Verb::AddBackend,
                Verb::QueryClusterById if rng.bool() => Verb::QueryClustersHashes,
                v => v,
            };
        }
        let n_msgs = n_msgs_for(verb, &mut rng);
        let beh: Vec<Beh> = classes.iter().map(|c| gen_beh(&mut rng, *c, n_msgs)).collect();
        let req = Req::new(verb, format!("t{case}c0r0x"), n_msgs, beh, 0);
        let mut s = Scenario::single(case, seed, classes.len(), req);
        s.exhaustive_block = true;
        s.skipped_by_design = verb == Verb::SoftStop && classes.iter().any(|c| c.never_ends());
        return s;
    }
    let mut case_in_rest = case - block * exhaustive_reps;
    if case_in_rest < OVERLAP_CASES {
        // overlap block: request A has one worker that answers 500+ ms after the worker timeout,
        // request B (another client, 0.6-0.8 s later) has a mute worker, so that B's later
        // deadline is pending when A's passes and nothing else wakes the hub in between
        let verb_a = [Verb::AddCluster, Verb::QueryClusterById, Verb::QueryMetrics, Verb::AddBackend][(case_in_rest % 4) as usize];
        if case_in_rest >= 8 {
            // staggered answers: one worker answers late but in time (0.8 s), another only after
            // the deadline: the first answer must not buy the second one more time
            let workers = 2 + (case_in_rest % 2) as usize;
            let beh = (0..workers)
                .map(|w| match w {
                    0 => Beh::plain_ok(800),
                    1 => Beh { class: BehClass::LateOk, delay_ms: 0, k: 0, final_fail: false, target_msg: 0 },
                    _ => Beh::plain_ok(*rng.pick(&[0u64, 300])),
                })
                .collect();
            return Scenario::single(case, seed, workers, Req::new(verb_a, format!("t{case}c0r0x"), 1, beh, 0));
        }
        let workers = rng.urange(1, 3);
        let verb_b = *rng.pick(&[Verb::AddCluster, Verb::QueryClusterById, Verb::QueryMetrics]);
        let late_worker = rng.usize_below(workers);
        let beh_a = (0..workers)
            .map(|w| Beh { class: if w == late_worker { BehClass::LateOk } else { BehClass::Ok }, delay_ms: *rng.pick(&[0u64, 20, 60]), k: 0, final_fail: false, target_msg: 0 })
            .collect();
        let mute_worker = rng.usize_below(workers);
        let beh_b = (0..workers)
            .map(|w| Beh { class: if w == mute_worker { BehClass::Silent } else { BehClass::Ok }, delay_ms: 0, k: 0, final_fail: false, target_msg: 0 })
            .collect();
        let a = Req::new(verb_a, format!("t{case}c0r0x"), 1, beh_a, 0);
        let b = Req::new(verb_b, format!("t{case}c1r0x"), 1, beh_b, rng.range(600, 800));
        return Scenario::new(case, seed, workers, vec![vec![a], vec![b]], None);
    }
    case_in_rest -= OVERLAP_CASES;
    if case_in_rest < SAME_TICK_CASES {
        // same-tick block: one worker acknowledges and closes its channel while the hub thread is
        // blocked by another client's SaveState into a FIFO that nobody reads yet: when the hub
        // comes back it finds the answer and the hang-up of that worker in one and the same event
        let verb = FAMILY_VERBS[(case_in_rest % 8) as usize];
        let workers = 1 + (case_in_rest / 8) as usize % 2;
        let n_msgs = n_msgs_for(verb, &mut rng);
        let closer = rng.usize_below(workers);
        let beh = (0..workers)
            .map(|w| {
                if w == closer {
                    Beh { class: BehClass::OkThenClose, delay_ms: 250, k: 0, final_fail: false, target_msg: if n_msgs > 1 { n_msgs - 1 } else { 0 } }
                } else {
                    Beh::plain_ok(*rng.pick(&[0u64, 100, 200]))
                }
            })
            .collect();
        let mut req = Req::new(verb, format!("t{case}c0r0x"), n_msgs, beh, 0);
        req.stall_ms = Some((30, 450)); // the end is scaled at run time
        let mut s = Scenario::single(case, seed, workers, req);
        if case_in_rest >= 16 {
            // a second client sends a request while the hub is held and before the worker
            // closes: when the hub comes back it first queues that request for the worker, then
            // finds the worker's answer and hang-up with a write pending on the dead channel
            let other = Req::new(Verb::AddCluster, format!("t{case}c1r0x"), 1, (0..workers).map(|_| Beh::plain_ok(0)).collect(), 120);
            // (a stop verb runs after all other clients: no concurrent request there)
            if s.stop.is_none() {
                s.clients.push(vec![other]);
            }
        }
        return s;
    }
    case_in_rest -= SAME_TICK_CASES;
    if case_in_rest < DAMAGED_STATE_CASES {
        // state files: sound, damaged tail (truncated / garbage record after valid ones), nothing
        // readable; the workers acknowledge the valid head at once, or one of them stays mute
        let damage = [Damage::TruncatedTail, Damage::GarbageTail, Damage::AllGarbage, Damage::None][(case_in_rest % 4) as usize];
        let workers = 1 + (case_in_rest / 4) as usize % 2;
        let mute = case_in_rest >= 8;
        let n_msgs = if damage == Damage::AllGarbage { 0 } else { rng.urange(1, 3) };
        let beh = (0..workers)
            .map(|w| if mute && w == 0 { Beh { class: BehClass::Silent, delay_ms: 0, k: 0, final_fail: false, target_msg: 0 } } else { Beh::plain_ok(*rng.pick(&[0u64, 0, 60])) })
            .collect();
        let mut req = Req::new(Verb::LoadState, format!("t{case}c0r0x"), n_msgs, beh, 0);
        req.damage = damage;
        // a second request on the same connection would take a stray second answer for its own
        let follow = Req::new(Verb::AddCluster, format!("t{case}c0r1x"), 1, (0..workers).map(|_| Beh::plain_ok(0)).collect(), 0);
        return Scenario::new(case, seed, workers, vec![vec![req, follow]], None);
    }
    case_in_rest -= DAMAGED_STATE_CASES;
    if case_in_rest < race_cases {
        // race block: well-behaved but very talkative workers (a stream of answers with unknown
        // ids around each dispatch, every real request acknowledged at once), so that worker
        // answers reach the hub in the same event-loop iteration that dispatched the request
        let workers = rng.urange(1, 2);
        let n_reqs = rng.urange(6, 8);
        let mut reqs = Vec::new();
        for r in 0..n_reqs {
            let verb = *rng.pick(&[Verb::AddCluster, Verb::LoadState, Verb::LoadState, Verb::LoadState, Verb::Reload, Verb::Reload, Verb::QueryClusterById]);
            let n_msgs = if verb == Verb::LoadState { 3 } else { n_msgs_for(verb, &mut rng) };
            let beh = (0..workers).map(|_| Beh::plain_ok(0)).collect();
            reqs.push(Req::new(verb, format!("t{case}c0r{r}x"), n_msgs, beh, rng.range(0, 10)));
        }
        let mut s = Scenario::new(case, seed, workers, vec![reqs], None);
        s.chatty = (0..workers).collect();
        return s;
    }
    // sampled part: mostly W in 3..4, 1..8 concurrent clients, 1..3 requests each
    let workers = match rng.below(10) {
        0 => 1,
        1 | 2 => 2,
        3..=6 => 3,
        _ => 4,
    };
    let n_clients = match rng.below(8) {
        0 => 1,
        1 | 2 => 2,
        3 | 4 => rng.urange(3, 4),
        _ => rng.urange(5, 8),
    };
    // how hostile the workers are in this case
    let ok_weight = *rng.pick(&[50u64, 70, 85, 95]);
    let pick_class = |rng: &mut Rng| -> BehClass {
        if rng.below(100) < ok_weight { BehClass::Ok } else { CLASSES[rng.urange(1, CLASSES.len() - 1)] }
    };
    let mut clients = Vec::new();
    for c in 0..n_clients {
        let n_reqs = rng.urange(1, 3);
        let mut reqs = Vec::new();
        for r in 0..n_reqs {
            let verb = match rng.below(20) {
                0..=4 => Verb::AddCluster,
                5..=7 => Verb::AddBackend,
                8..=10 => Verb::QueryClusterById,
                11 => Verb::QueryClustersHashes,
                12..=13 => Verb::QueryMetrics,
                14..=15 => Verb::Status,
                16..=17 => Verb::LoadState,
                _ => Verb::Reload,
            };
            let mut n_msgs = n_msgs_for(verb, &mut rng);
            let mut beh = Vec::new();
            for _ in 0..workers {
                let mut class = pick_class(&mut rng);
                // an unbounded verb with a mute worker costs a full deadline twice: keep them rarer
                if matches!(verb, Verb::LoadState | Verb::Reload) && class != BehClass::Ok && rng.chance(2, 3) {
                    class = BehClass::Ok;
                }
                beh.push(gen_beh(&mut rng, class, n_msgs));
            }
            let mut req = Req::new(verb, format!("t{case}c{c}r{r}x"), n_msgs, Vec::new(), *rng.pick(&[0u64, 0, 10, 50, 120, 400, 900]));
            if verb == Verb::LoadState && rng.chance(1, 4) {
                req.damage = *rng.pick(&[Damage::TruncatedTail, Damage::GarbageTail, Damage::AllGarbage]);
                if req.damage == Damage::AllGarbage {
                    n_msgs = 0;
                }
                for b in beh.iter_mut() {
                    b.target_msg = b.target_msg.min(n_msgs.saturating_sub(1));
                }
            }
            req.n_msgs = n_msgs;
            req.beh = beh;
            reqs.push(req);
        }
        clients.push(reqs);
    }
    let stop = if rng.chance(1, 3) {
        let verb = if rng.bool() { Verb::HardStop } else { Verb::SoftStop };
        let beh = (0..workers)
            .map(|_| {
                let mut c = pick_class(&mut rng);
                if verb == Verb::SoftStop && c.never_ends() {
                    c = BehClass::OkThenClose; // a soft stop waits for such a worker by design
                }
                gen_beh(&mut rng, c, 1)
            })
            .collect();
        Some(Req::new(verb, format!("t{case}c{n_clients}r0x"), 1, beh, 0))
    } else {
        None
    };
    Scenario::new(case, seed, workers, clients, stop)
}

// =================================================================================================
// Running one scenario
// =================================================================================================

#[derive(Clone, Debug)]
struct Msg {
    at_ms: u64,
    status: i32,
    message: String,
    content: Option<ResponseContent>,
}

#[derive(Clone, Debug, Default)]
struct ReqObs {
    sent_at: Option<Instant>,
    msgs: Vec<Msg>,
    /// index in msgs of the first final answer
    final_idx: Option<usize>,
    final_at: Option<Instant>,
    /// harness-side trouble on this request (connect/send/read error)
    harness_error: Option<String>,
    connection_closed_by_hub: bool,
    skipped: bool,
    /// the hub thread was to be held busy during this request: how long the blocking SaveState
    /// of the helper client took (ms), or what went wrong
    stall: Option<Result<u64, String>>,
}

/// what a scripted worker saw and did for one client request
#[derive(Clone, Debug, Default)]
struct WorkerSide {
    received: usize,
    first_received_at: Option<Instant>,
    /// number of successful final answers written (instant taken before the write)
    ok_sent: Vec<Instant>,
    fail_sent: Vec<Instant>,
    /// duplicate or late successful answers (not acknowledgements in the sense of the oracle)
    extra_ok_sent: Vec<Instant>,
    unknown_request_ids: usize,
}

#[derive(Default)]
struct Shared {
    /// worker-side key (tag, or verb name for untagged verbs) -> (client, req)
    registry: HashMap<String, (usize, usize)>,
    /// (client, req, worker) -> what the worker saw
    worker_side: HashMap<(usize, usize, usize), WorkerSide>,
    /// worker -> instant at which the script closed its channel
    closed_at: HashMap<usize, Instant>,
    unroutable_worker_requests: Vec<String>,
    worker_errors: Vec<String>,
    chatter_sent: u64,
}

#[derive(Clone, Copy)]
enum Rec {
    No,
    Ok(usize, usize),
    Fail(usize, usize),
    ExtraOk(usize, usize),
}

enum Action {
    Send(WorkerResponse, Rec),
    /// write the answer and close the channel at once, without giving the hub a chance to read
    /// in between
    SendThenClose(WorkerResponse, Rec),
    /// send, and again every so many ms until the case ends
    Repeat(WorkerResponse, u64),
    Close,
}

fn worker_key(req: &WorkerRequest) -> Option<String> {
    match req.content.request_type.as_ref()? {
        RequestType::AddCluster(c) => Some(c.cluster_id.clone()),
        RequestType::AddBackend(b) => Some(b.cluster_id.clone()),
        RequestType::QueryClusterById(x) => Some(x.clone()),
        RequestType::QueryMetrics(o) => o.cluster_ids.first().cloned(),
        RequestType::Status(_) => Some("Status".into()),
        RequestType::QueryClustersHashes(_) => Some("QueryClustersHashes".into()),
        RequestType::HardStop(_) => Some("HardStop".into()),
        RequestType::SoftStop(_) => Some("SoftStop".into()),
        _ => None,
    }
}

fn content_for(verb: Verb, tag: &str) -> Option<ResponseContent> {
    match verb {
        Verb::QueryClusterById => Some(
            ContentType::Clusters(ClusterInformations {
                vec: vec![ClusterInformation {
                    configuration: Some(Cluster { cluster_id: tag.to_owned(), ..Default::default() }),
                    ..Default::default()
                }],
            })
            .into(),
        ),
        Verb::QueryMetrics => Some(
            ContentType::WorkerMetrics(WorkerMetrics {
                proxy: BTreeMap::new(),
                clusters: [(tag.to_owned(), ClusterMetrics::default())].into_iter().collect(),
            })
            .into(),
        ),
        _ => None,
    }
}

fn resp(id: &str, status: ResponseStatus, message: String, content: Option<ResponseContent>) -> WorkerResponse {
    WorkerResponse { id: id.to_owned(), status: status as i32, message, content }
}

/// the scripted worker: answers every request per the scenario, until told to stop
fn worker_loop(
    mut w: FakeWorker,
    widx: usize,
    scenario: &Scenario,
    shared: &Mutex<Shared>,
    stop: &AtomicBool,
    chatter_on: &AtomicU64,
    timeout: Duration,
) {
    let chatty = scenario.chatty.contains(&widx);
    let mut chatter_sent = 0u64;
    let mut schedule: Vec<(Instant, Action)> = Vec::new();
    if scenario.pre_closed.contains(&widx) {
        schedule.push((Instant::now(), Action::Close));
    }
    // Some(()) once the case is over: keep reading until the channel has been found empty, so
    // that every request the hub dispatched is seen (and counted as received), however late
    // this thread gets to run
    let mut draining_until: Option<()> = None;
    loop {
        if draining_until.is_none() && stop.load(Ordering::SeqCst) {
            draining_until = Some(());
        }
        // run what is due
        let now = Instant::now();
        let mut i = 0;
        while i < schedule.len() {
            if schedule[i].0 <= now {
                let (_, action) = schedule.remove(i);
                let (action, close_after) = match action {
                    Action::SendThenClose(r, rec) => (Action::Send(r, rec), true),
                    Action::Repeat(r, period) => {
                        schedule.push((now + Duration::from_millis(period), Action::Repeat(r.clone(), period)));
                        (Action::Send(r, Rec::No), false)
                    }
                    other => (other, false),
                };
                match action {
                    Action::SendThenClose(..) | Action::Repeat(..) => {}
                    Action::Send(r, rec) => {
                        let before = Instant::now();
                        if w.chan.is_closed() {
                            continue;
                        }
                        // record first (instant before the write): the hub cannot have seen
                        // the answer before this instant
                        {
                            let mut sh = shared.lock().unwrap();
                            match rec {
                                Rec::No => {}
                                Rec::Ok(c, q) => sh.worker_side.entry((c, q, widx)).or_default().ok_sent.push(before),
                                Rec::Fail(c, q) => sh.worker_side.entry((c, q, widx)).or_default().fail_sent.push(before),
                                Rec::ExtraOk(c, q) => sh.worker_side.entry((c, q, widx)).or_default().extra_ok_sent.push(before),
                            }
                        }
                        if let Err(e) = w.send(&r) {
                            shared.lock().unwrap().worker_errors.push(format!("worker {widx} send: {e}"));
                        }
                        if close_after {
                            // instant taken before the close: the hub cannot see it earlier
                            shared.lock().unwrap().closed_at.entry(widx).or_insert_with(Instant::now);
                            w.close();
                        }
                    }
                    Action::Close => {
                        shared.lock().unwrap().closed_at.entry(widx).or_insert_with(Instant::now);
                        w.close();
                    }
                }
            } else {
                i += 1;
            }
        }
        if w.chan.is_closed() {
            if draining_until.is_some() {
                break;
            }
            std::thread::sleep(Duration::from_millis(10));
            continue;
        }
        let next_due = schedule.iter().map(|s| s.0).min();
        let mut deadline = Instant::now() + Duration::from_millis(15);
        if let Some(d) = next_due {
            deadline = deadline.min(d);
        }
        if chatty {
            // notice quickly when a client switches the chatter on
            deadline = deadline.min(Instant::now() + Duration::from_micros(500));
        }
        if chatty && draining_until.is_none() && chatter_on.load(Ordering::SeqCst) > 0 {
            // keep the hub busy reading this worker: an answer nobody asked for, then look for
            // requests without waiting
            chatter_sent += CHATTER_BURST as u64;
            let _ = w.chan.send_burst(&resp(&format!("unsolicited-{widx}"), ResponseStatus::Ok, "chatter".into(), None), CHATTER_BURST);
            deadline = Instant::now() + Duration::from_micros(100 + (chatter_sent / CHATTER_BURST as u64 * 7919 % 600));
        }
        if draining_until.is_some() {
            deadline = Instant::now() + scaled_ms(30);
        }
        let req = match w.recv_until(deadline) {
            Recv::Msg(m) => m,
            Recv::Timeout if draining_until.is_some() => break,
            Recv::Timeout => continue,
            Recv::Closed => {
                // the hub dropped its end (it exited)
                break;
            }
            Recv::Error(e) => {
                shared.lock().unwrap().worker_errors.push(format!("worker {widx} recv: {e}"));
                break;
            }
        };
        let got_at = Instant::now();
        let key = worker_key(&req);
        let target = key.as_ref().and_then(|k| shared.lock().unwrap().registry.get(k).copied());
        let Some((c, q)) = target else {
            shared.lock().unwrap().unroutable_worker_requests.push(format!("{:?}", req.content.request_type.as_ref().map(|r| format!("{r:?}").chars().take(80).collect::<String>())));
            schedule.push((got_at, Action::Send(resp(&req.id, ResponseStatus::Ok, "ok (unrouted)".into(), None), Rec::No)));
            continue;
        };
        let r: &Req = if c < scenario.clients.len() { &scenario.clients[c][q] } else { scenario.stop.as_ref().unwrap() };
        let msg_index = {
            let mut sh = shared.lock().unwrap();
            let ws = sh.worker_side.entry((c, q, widx)).or_default();
            ws.received += 1;
            ws.first_received_at.get_or_insert(got_at);
            ws.received - 1
        };
        let b = &r.beh[widx];
        let tag = &r.tag;
        let content = content_for(r.verb, tag);
        if msg_index != b.target_msg {
            // the other messages of a multi-message verb are acknowledged at once
            schedule.push((got_at, Action::Send(resp(&req.id, ResponseStatus::Ok, format!("ok {tag}"), content), Rec::Ok(c, q))));
            continue;
        }
        let at = got_at + Duration::from_millis(b.delay_ms);
        let ok = |content| resp(&req.id, ResponseStatus::Ok, format!("ok {tag}"), content);
        match b.class {
            BehClass::Ok => schedule.push((at, Action::Send(ok(content), Rec::Ok(c, q)))),
            BehClass::Failure => schedule.push((at, Action::Send(resp(&req.id, ResponseStatus::Failure, format!("fail {tag}"), None), Rec::Fail(c, q)))),
            BehClass::Silent => {}
            BehClass::Close => schedule.push((at, Action::Close)),
            BehClass::DupOk => {
                schedule.push((at, Action::Send(ok(content.clone()), Rec::Ok(c, q))));
                // the duplicate is deliberately not recorded as a second acknowledgement
                schedule.push((at + Duration::from_millis(b.k), Action::Send(ok(content), Rec::ExtraOk(c, q))));
            }
            BehClass::LateOk => {
                // a soft stop has no deadline by design: there a late answer is a plain answer
                let rec = if r.verb == Verb::SoftStop { Rec::Ok(c, q) } else { Rec::ExtraOk(c, q) };
                schedule.push((got_at + timeout + late_after_timeout() + Duration::from_millis(b.delay_ms), Action::Send(ok(content), rec)));
            }
            BehClass::OkThenClose => schedule.push((at, Action::SendThenClose(ok(content), Rec::Ok(c, q)))),
            BehClass::EndlessProcessing => {
                schedule.push((got_at + Duration::from_millis(b.k.min(b.delay_ms)), Action::Repeat(resp(&req.id, ResponseStatus::Processing, format!("working {tag}"), None), b.k)));
            }
            BehClass::Processing => {
                for i in 0..b.k {
                    let t = got_at + Duration::from_millis(b.delay_ms * (i + 1) / (b.k + 1));
                    schedule.push((t, Action::Send(resp(&req.id, ResponseStatus::Processing, format!("working {tag}"), None), Rec::No)));
                }
                if b.final_fail {
                    schedule.push((at, Action::Send(resp(&req.id, ResponseStatus::Failure, format!("fail {tag}"), None), Rec::Fail(c, q))));
                } else {
                    schedule.push((at, Action::Send(ok(content), Rec::Ok(c, q))));
                }
            }
            BehClass::UnknownId => {
                shared.lock().unwrap().worker_side.entry((c, q, widx)).or_default().unknown_request_ids += 1;
                schedule.push((at, Action::Send(resp(&format!("bogus-{}-{widx}", req.id), ResponseStatus::Ok, format!("ok {tag}"), content), Rec::No)));
            }
        }
    }
    shared.lock().unwrap().chatter_sent += chatter_sent;
    w.close();
}

fn write_state_file(path: &Path, tag: &str, n: usize, damage: Damage) -> Result<(), String> {
    let mut f = fs::File::create(path).map_err(|e| format!("create state file: {e}"))?;
    // one record more than the workers will see: the damaged tail is made out of it
    let records = if damage == Damage::TruncatedTail { n + 1 } else { n };
    for i in 0..records {
        let content: Request = if i == 0 {
            RequestType::AddCluster(Cluster { cluster_id: tag.to_owned(), ..Default::default() }).into()
        } else {
            RequestType::AddBackend(AddBackend {
                cluster_id: tag.to_owned(),
                backend_id: format!("{tag}-b{i}"),
                address: SocketAddress::new_v4(127, 0, 0, 1, 2000 + i as u16),
                ..Default::default()
            })
            .into()
        };
        let wr = WorkerRequest { id: format!("SAVE-{i}"), content };
        let line = serde_json::to_string(&wr).map_err(|e| format!("serialise state: {e}"))?;
        if damage == Damage::TruncatedTail && i == n {
            // the file ends in the middle of this record
            f.write_all(&line.as_bytes()[..line.len() / 2]).map_err(|e| format!("write state: {e}"))?;
            break;
        }
        f.write_all(line.as_bytes()).and_then(|_| f.write_all(b"\n\0")).map_err(|e| format!("write state: {e}"))?;
    }
    if matches!(damage, Damage::GarbageTail | Damage::AllGarbage) {
        f.write_all(b"{\"id\":\"SAVE-x\",\"content\":\"this is not a request\"}\n\0").map_err(|e| format!("write state: {e}"))?;
    }
    Ok(())
}

fn write_reload_config(path: &Path, tag: &str) -> Result<(), String> {
    let text = format!(
        "command_socket = \"./sock\"\nworker_count = 0\nworker_automatic_restart = false\nlog_level = \"off\"\nlog_target = \"stdout\"\ndisable_cluster_metrics = false\nactivate_listeners = false\n\n[clusters.{tag}]\nprotocol = \"tcp\"\nfrontends = []\nbackends = [ {{ address = \"127.0.0.1:2999\" }} ]\n"
    );
    fs::write(path, text).map_err(|e| format!("write reload config: {e}"))
}

fn build_request(r: &Req, run_dir: &Path) -> Result<RequestType, String> {
    Ok(match r.verb {
        Verb::AddCluster => RequestType::AddCluster(Cluster { cluster_id: r.tag.clone(), ..Default::default() }),
        Verb::AddBackend => RequestType::AddBackend(AddBackend {
            cluster_id: r.tag.clone(),
            backend_id: format!("{}-b", r.tag),
            address: SocketAddress::new_v4(127, 0, 0, 1, 1999),
            ..Default::default()
        }),
        Verb::QueryClusterById => RequestType::QueryClusterById(r.tag.clone()),
        Verb::QueryClustersHashes => RequestType::QueryClustersHashes(QueryClustersHashes {}),
        Verb::QueryMetrics => RequestType::QueryMetrics(QueryMetricsOptions {
            list: false,
            cluster_ids: vec![r.tag.clone()],
            backend_ids: vec![],
            metric_names: vec![],
            no_clusters: false,
            workers: false,
        }),
        Verb::Status => RequestType::Status(Status {}),
        Verb::LoadState => {
            let p = run_dir.join(format!("{}.state", r.tag));
            write_state_file(&p, &r.tag, r.n_msgs, r.damage)?;
            RequestType::LoadState(p.to_string_lossy().into_owned())
        }
        Verb::Reload => {
            let p = run_dir.join(format!("{}.toml", r.tag));
            write_reload_config(&p, &r.tag)?;
            RequestType::ReloadConfiguration(p.to_string_lossy().into_owned())
        }
        Verb::HardStop => RequestType::HardStop(HardStop {}),
        Verb::SoftStop => RequestType::SoftStop(SoftStop {}),
    })
}

/// send one request and record everything received until the final answer (+ linger), or
/// until the deadline
fn do_request_with(client: &mut HubClient, r: &Req, rt: RequestType, timeout: Duration, obs: &mut ReqObs, after_dispatch: Option<&dyn Fn()>) {
    let mut after_dispatch = after_dispatch;
    let t0 = Instant::now();
    obs.sent_at = Some(t0);
    if let Err(e) = client.send(rt) {
        obs.harness_error = Some(format!("send: {e}"));
        if let Some(f) = after_dispatch.take() {
            f();
        }
        return;
    }
    let deadline = t0 + timeout + slack();
    // how long to keep listening after the final answer for anything that should not come
    let mut linger = Duration::from_millis(250);
    if r.beh.iter().any(|b| b.class == BehClass::LateOk) {
        linger = Duration::from_millis(300);
    }
    if r.verb == Verb::LoadState && r.damage != Damage::None {
        // a task that outlives the refusal would answer again once the workers acknowledged
        // the readable head, or when their deadline passes
        linger = timeout + Duration::from_millis(400);
    }
    let mut stop_at = deadline;
    loop {
        let mut until = stop_at;
        if after_dispatch.is_some() {
            until = until.min(t0 + Duration::from_millis(30));
        }
        let got = client.recv_until(until);
        if after_dispatch.is_some() && Instant::now() >= t0 + Duration::from_millis(30) {
            if let Some(f) = after_dispatch.take() {
                f();
            }
            if matches!(got, Recv::Timeout) && Instant::now() < stop_at {
                continue;
            }
        }
        match got {
            Recv::Msg(m) => {
                let now = Instant::now();
                let is_final = m.status != ResponseStatus::Processing as i32;
                obs.msgs.push(Msg { at_ms: (now - t0).as_millis() as u64, status: m.status, message: m.message, content: m.content });
                if is_final && obs.final_idx.is_none() {
                    obs.final_idx = Some(obs.msgs.len() - 1);
                    obs.final_at = Some(now);
                    stop_at = now + linger;
                    // a late worker answer is due after the timeout: listen past it
                    if r.beh.iter().any(|b| b.class == BehClass::LateOk) {
                        let late_due = t0 + timeout + late_after_timeout() + Duration::from_millis(350) + scaled_ms(250);
                        stop_at = stop_at.max(late_due.min(deadline));
                    }
                }
            }
            Recv::Timeout => break,
            Recv::Closed => {
                obs.connection_closed_by_hub = true;
                break;
            }
            Recv::Error(e) => {
                obs.harness_error = Some(format!("recv: {e}"));
                break;
            }
        }
    }
    if let Some(f) = after_dispatch.take() {
        f();
    }
}

/// Keep the (single-threaded) hub busy from `from_ms` to `to_ms` after now: a helper client asks
/// for a SaveState into a FIFO, which blocks the hub in open(2) until somebody opens the other
/// end. Returns how long the SaveState took.
fn hold_hub_busy(sock: &str, run_dir: &Path, tag: &str, from_ms: u64, to_ms: u64) -> Result<u64, String> {
    use std::os::unix::fs::OpenOptionsExt;
    let t0 = Instant::now();
    let fifo = run_dir.join(format!("{tag}.fifo"));
    let c_path = std::ffi::CString::new(fifo.to_string_lossy().as_bytes()).map_err(|e| e.to_string())?;
    // SAFETY: valid NUL-terminated path
    if unsafe { libc::mkfifo(c_path.as_ptr(), 0o600) } != 0 {
        return Err(format!("mkfifo: {}", std::io::Error::last_os_error()));
    }
    let mut client = HubClient::connect(sock)?;
    std::thread::sleep((t0 + Duration::from_millis(from_ms)).saturating_duration_since(Instant::now()));
    let sent = Instant::now();
    client.send(RequestType::SaveState(fifo.to_string_lossy().into_owned()))?;
    std::thread::sleep((t0 + Duration::from_millis(to_ms)).saturating_duration_since(Instant::now()));
    // opening the read end (without blocking ourselves) releases the hub; keep it open until the
    // hub has answered, so that the hub can never block on this FIFO again
    let mut reader = fs::OpenOptions::new()
        .read(true)
        .custom_flags(libc::O_NONBLOCK)
        .open(&fifo)
        .map_err(|e| format!("open fifo: {e}"))?;
    let give_up = Instant::now() + scaled_ms(4000);
    let mut took = None;
    let mut buf = [0u8; 4096];
    while Instant::now() < give_up {
        let _ = std::io::Read::read(&mut reader, &mut buf);
        match client.recv_until(Instant::now() + Duration::from_millis(10)) {
            Recv::Msg(m) if m.status != ResponseStatus::Processing as i32 => {
                took = Some(sent.elapsed().as_millis() as u64);
                break;
            }
            Recv::Msg(_) | Recv::Timeout => {}
            Recv::Closed => break,
            Recv::Error(e) => return Err(e),
        }
    }
    drop(reader);
    let _ = fs::remove_file(&fifo);
    took.ok_or_else(|| "no answer to the helper SaveState".to_owned())
}

struct CaseRun {
    obs: Vec<Vec<ReqObs>>, // [client][req]; the stop request is client index = clients.len()
    shared: Shared,
    responsive: Option<Result<Vec<(u32, i32, i32)>, String>>, // ListWorkers from a fresh client
    shutdown: ShutdownReport,
    pids: Vec<i32>,
    /// workers whose script closed the channel and whose dummy child the hub had killed
    killed_after_close: u64,
    lab_error: Option<String>,
}

/// flooding scenarios running right now: they saturate a core each, and a starved hub thread
/// notices its own deadlines late, which is the harness's doing, not sozu's
static FLOODING: AtomicU64 = AtomicU64::new(0);
const MAX_FLOODING: u64 = 4;

fn run_scenario(root: &Path, s: &Scenario) -> CaseRun {
    struct Slot(bool);
    impl Drop for Slot {
        fn drop(&mut self) {
            if self.0 {
                FLOODING.fetch_sub(1, Ordering::SeqCst);
            }
        }
    }
    let mut _slot = Slot(false);
    if !s.chatty.is_empty() {
        loop {
            let n = FLOODING.load(Ordering::SeqCst);
            if n < MAX_FLOODING && FLOODING.compare_exchange(n, n + 1, Ordering::SeqCst, Ordering::SeqCst).is_ok() {
                _slot.0 = true;
                break;
            }
            std::thread::sleep(Duration::from_millis(20));
        }
    }
    let n_clients = s.clients.len();
    let mut out = CaseRun {
        obs: Vec::new(),
        shared: Shared::default(),
        responsive: None,
        shutdown: ShutdownReport::default(),
        pids: Vec::new(),
        killed_after_close: 0,
        lab_error: None,
    };
    let mut lab = match HubLab::start(root, s.workers, WORKER_TIMEOUT_S, |_| {}) {
        Ok(l) => l,
        Err(e) => {
            out.lab_error = Some(e);
            return out;
        }
    };
    out.pids = lab.worker_pids();
    let timeout = lab.worker_timeout;
    let workers = lab.take_workers();
    let shared = Mutex::new(Shared::default());
    let stop = AtomicBool::new(false);
    let chatter_on = AtomicU64::new(0);
    let untagged_locks: HashMap<&'static str, Mutex<()>> =
        [("Status", Mutex::new(())), ("QueryClustersHashes", Mutex::new(())), ("HardStop", Mutex::new(())), ("SoftStop", Mutex::new(()))].into_iter().collect();
    let run_dir = lab.run_dir.clone();
    let sock = lab.sock_path.clone();

    let mut all_obs: Vec<Vec<ReqObs>> = Vec::new();
    let mut responsive = None;
    let mut killed_after_close = 0u64;
    let pids = out.pids.clone();
    let run_client = |c: usize, reqs: &[Req]| -> Vec<ReqObs> {
        let mut obs: Vec<ReqObs> = reqs.iter().map(|_| ReqObs::default()).collect();
        let mut client = match HubClient::connect(&sock) {
            Ok(cl) => cl,
            Err(e) => {
                for o in obs.iter_mut() {
                    o.harness_error = Some(e.clone());
                }
                return obs;
            }
        };
        for (q, r) in reqs.iter().enumerate() {
            std::thread::sleep(Duration::from_millis(r.pre_delay_ms));
            let rt = match build_request(r, &run_dir) {
                Ok(rt) => rt,
                Err(e) => {
                    obs[q].harness_error = Some(e);
                    break;
                }
            };
            let _guard = if r.verb.untagged() { Some(untagged_locks[r.verb.name()].lock().unwrap()) } else { None };
            let key = if r.verb.untagged() { r.verb.name().to_owned() } else { r.tag.clone() };
            shared.lock().unwrap().registry.insert(key, (c, q));
            // chatter only around the dispatch (a hub flooded for seconds proves nothing more)
        chatter_on.fetch_add(1, Ordering::SeqCst);
        let chatter_off = {
            let chatter_on = &chatter_on;
            move || { chatter_on.fetch_sub(1, Ordering::SeqCst); }
        };
        std::thread::sleep(Duration::from_millis(if s.chatty.is_empty() { 0 } else { 5 }));
        match r.stall_ms {
            None => do_request_with(&mut client, r, rt, timeout, &mut obs[q], Some(&chatter_off)),
            Some((from_ms, to_ms)) => {
                let stall = std::thread::scope(|sc| {
                    // longer on a slow machine, but well short of the worker timeout: a hub held
                    // past a deadline times the task out before it reads the waiting answers,
                    // which would be this harness's doing
                    let to_ms = (scaled_ms(to_ms).as_millis() as u64).min(WORKER_TIMEOUT_S as u64 * 700);
                    let (sock, run_dir) = (&sock, &run_dir);
                    let h = sc.spawn(move || hold_hub_busy(sock, run_dir, &r.tag, from_ms, to_ms));
                    do_request_with(&mut client, r, rt, timeout, &mut obs[q], Some(&chatter_off));
                    h.join().unwrap_or_else(|_| Err("helper thread panicked".into()))
                });
                obs[q].stall = Some(stall);
            }
        }
            if obs[q].final_idx.is_none() {
                // the connection is in an unknown state: the remaining requests are not sent
                for o in obs.iter_mut().skip(q + 1) {
                    o.skipped = true;
                }
                break;
            }
        }
        obs
    };
    std::thread::scope(|scope| {
        let mut wh = Vec::new();
        for (i, w) in workers.into_iter().enumerate() {
            let shared = &shared;
            let stop = &stop;
            let chatter_on = &chatter_on;
            wh.push(scope.spawn(move || worker_loop(w, i, s, shared, stop, chatter_on, timeout)));
        }
        let handles: Vec<_> = s
            .clients
            .iter()
            .enumerate()
            .map(|(c, reqs)| {
                let run_client = &run_client;
                scope.spawn(move || run_client(c, reqs))
            })
            .collect();
        for h in handles {
            all_obs.push(h.join().unwrap_or_default());
        }
        // responsiveness: a fresh client asks the main process for its worker list
        responsive = Some((|| -> Result<Vec<(u32, i32, i32)>, String> {
            let mut c = HubClient::connect(&sock)?;
            match c.request(RequestType::ListWorkers(ListWorkers {}), scaled_ms(4000))? {
                (_, Some(f)) => match f.content.and_then(|c| c.content_type) {
                    Some(ContentType::Workers(w)) if f.status == ResponseStatus::Ok as i32 => {
                        Ok(w.vec.iter().map(|i| (i.id, i.pid, i.run_state)).collect())
                    }
                    other => Err(format!("unexpected answer to ListWorkers: status {} content {:?}", f.status, other.is_some())),
                },
                (_, None) => Err("no answer to ListWorkers in time".into()),
            }
        })());
        // a worker whose script closed its channel must have been SIGKILLed by the hub by now:
        // its dummy child is a zombie (not reaped before the hub thread is gone)
        for w in shared.lock().unwrap().closed_at.keys() {
            let stat = fs::read_to_string(format!("/proc/{}/stat", pids[*w])).unwrap_or_default();
            let state = stat.rsplit(')').next().and_then(|r| r.trim().chars().next());
            if state == Some('Z') {
                killed_after_close += 1;
            }
        }
        if let Some(stop_req) = &s.stop {
            all_obs.push(run_client(n_clients, std::slice::from_ref(stop_req)));
        }
        stop.store(true, Ordering::SeqCst);
        for h in wh {
            let _ = h.join();
        }
    });
    out.obs = all_obs;
    out.responsive = responsive;
    out.killed_after_close = killed_after_close;
    out.shared = shared.into_inner().unwrap_or_default();
    out.shutdown = lab.shutdown();
    out
}

// =================================================================================================
// Oracle
// =================================================================================================

fn status_name(s: i32) -> &'static str {
    match ResponseStatus::try_from(s) {
        Ok(ResponseStatus::Ok) => "OK",
        Ok(ResponseStatus::Failure) => "FAILURE",
        Ok(ResponseStatus::Processing) => "PROCESSING",
        Err(_) => "?",
    }
}

fn msgs_json(o: &ReqObs) -> Value {
    Value::Array(
        o.msgs
            .iter()
            .map(|m| json!({"at_ms": m.at_ms, "status": status_name(m.status), "message": m.message.chars().take(200).collect::<String>(), "has_content": m.content.is_some()}))
            .collect(),
    )
}

#[derive(Debug, PartialEq)]
enum Verdict {
    Fine,
    /// no final answer by the deadline: to be re-run in isolation
    Miss,
    /// a verdict that holds only if the hub thread got to run on time (an answer written
    /// after the worker timeout was accepted: a hub starved of CPU notices its own deadline
    /// late too): reported only when it reproduces on a fresh hub. (signature, what, witness)
    TimeBound(String, String, Value),
}

struct Judge<'a> {
    ctx: &'a Ctx,
    s: &'a Scenario,
    run: &'a CaseRun,
}

/// simplest witness seen per signature (the shared report keeps the first three it meets, which
/// with 64 runner threads are rarely the smallest ones)
static SIMPLEST: Mutex<BTreeMap<String, (u64, crate::common::Violation)>> = Mutex::new(BTreeMap::new());

/// smaller = simpler scenario
fn scenario_weight(s: &Scenario) -> u64 {
    let reqs: Vec<&Req> = s.clients.iter().flatten().chain(s.stop.iter()).collect();
    let faulty: usize = reqs.iter().map(|r| r.beh.iter().filter(|b| b.class != BehClass::Ok).count()).sum();
    let msgs: usize = reqs.iter().map(|r| r.n_msgs).sum();
    (reqs.len() as u64) * 10_000 + (s.workers as u64) * 1_000 + (faulty as u64) * 100 + msgs as u64 * 10 + if s.chatty.is_empty() { 0 } else { 5 }
}

fn violate_weighted(rep: &mut Report, weight: u64, signature: &str, what: &str, witness: Value) {
    {
        let mut best = SIMPLEST.lock().unwrap_or_else(|e| e.into_inner());
        let better = best.get(signature).map(|(w, _)| weight < *w).unwrap_or(true);
        if better {
            best.insert(signature.to_owned(), (weight, crate::common::Violation { signature: signature.to_owned(), what: what.to_owned(), witness: witness.clone() }));
        }
    }
    rep.violation(signature, what, witness);
}

impl Judge<'_> {
    fn violate(&self, rep: &mut Report, signature: &str, what: &str, witness: Value) {
        violate_weighted(rep, scenario_weight(self.s), signature, what, witness)
    }

    fn req(&self, c: usize, q: usize) -> &Req {
        if c < self.s.clients.len() { &self.s.clients[c][q] } else { self.s.stop.as_ref().unwrap() }
    }

    fn witness(&self, c: usize, q: usize, expected: &str, extra: Value) -> Value {
        let o = &self.run.obs[c][q];
        let r = self.req(c, q);
        let ws: Vec<Value> = (0..self.s.workers)
            .map(|w| {
                let side = self.run.shared.worker_side.get(&(c, q, w));
                let rel = |t: &Instant| o.sent_at.map(|s| t.saturating_duration_since(s).as_millis() as u64);
                json!({"worker": w, "scripted": r.beh[w].json(),
                    "messages_received": side.map(|s| s.received).unwrap_or(0),
                    "ok_answers_written_at_ms": side.map(|s| s.ok_sent.iter().map(rel).collect::<Vec<_>>()),
                    "failure_answers_written_at_ms": side.map(|s| s.fail_sent.iter().map(rel).collect::<Vec<_>>()),
                    "channel_closed_by_script_at_ms": self.run.shared.closed_at.get(&w).map(rel)})
            })
            .collect();
        json!({"case": self.s.case, "seed": self.s.seed, "client": c, "request_index": q,
            "request": req_json(r), "expected": expected,
            "observed_client_messages": msgs_json(o), "workers": ws, "extra": extra,
            "scenario": scenario_json(self.s),
            "reproduce": format!("vh C09 --tier {} --seed {} --opt only={} --opt print=1", self.ctx.tier.name(), self.s.seed as i64, self.s.case)})
    }

    /// judge one client request; returns Miss when it got no final answer in time
    fn judge(&self, c: usize, q: usize, rep: &mut Report) -> Verdict {
        let o = &self.run.obs[c][q];
        let r = self.req(c, q);
        let fam = r.verb.family();
        if o.skipped || o.sent_at.is_none() {
            rep.obs("requests_not_sent_after_earlier_miss", 1);
            return Verdict::Fine;
        }
        let hub_died = self.run.shutdown.panics.iter().any(|p| p.in_sozu());
        if o.harness_error.is_some() && hub_died {
            // reported once, as the panic of the hub thread
            rep.obs("requests_failed_after_hub_thread_died", 1);
            return Verdict::Fine;
        }
        if let Some(e) = &o.harness_error {
            rep.inconclusive(&format!("harness error on a client request: {}", e.chars().take(60).collect::<String>()));
            return Verdict::Fine;
        }
        rep.obs("client_requests_judged", 1);
        match &o.stall {
            Some(Ok(ms)) if r.stall_ms.map(|(a, b)| *ms + 30 >= (scaled_ms(b).as_millis() as u64).min(WORKER_TIMEOUT_S as u64 * 700) - a).unwrap_or(false) => rep.obs("hub_thread_held_busy_confirmed", 1),
            Some(_) => rep.obs("hub_thread_not_held_busy_as_planned", 1),
            None => {}
        }
        if r.verb == Verb::LoadState {
            rep.obs(&format!("load_state_file:{}", r.damage.name()), 1);
        }
        rep.obs(&format!("verb:{}", r.verb.name()), 1);
        for b in &r.beh {
            rep.obs(&format!("beh:{}:{}", fam, b.class.name()), 1);
        }
        let sent_at = o.sent_at.unwrap();

        // -- affinity of every message: no other request's tag may show up
        for m in &o.msgs {
            for other in self.all_tags() {
                if other != r.tag && m.message.contains(other.as_str()) {
                    self.violate(rep, 
                        &format!("hub/wrong_client/{fam}"),
                        &format!("client {c} received a message that belongs to request {other}: {:?}", m.message),
                        self.witness(c, q, "only messages about this client's own request", json!({"foreign_tag": other})),
                    );
                }
            }
        }

        // -- exactly one final answer, nothing after it
        let Some(fi) = o.final_idx else {
            if hub_died {
                // a consequence of the panic, which is reported on its own
                rep.obs("no_final_answer_after_hub_thread_died", 1);
                return Verdict::Fine;
            }
            return Verdict::Miss;
        };
        let fin = &o.msgs[fi];
        let t_final = o.final_at.unwrap();
        let ttf = (t_final - sent_at).as_millis() as u64;
        rep.obs_max("time_to_final_ms", ttf);
        rep.obs_max(&format!("time_to_final_ms:{fam}"), ttf);
        if ttf + 50 >= self.run_timeout_ms() {
            rep.obs("finals_at_or_after_worker_timeout", 1);
        }
        if ttf > self.run_timeout_ms() + 500 {
            rep.obs("finals_later_than_timeout_plus_500ms", 1);
        }
        let after: Vec<&Msg> = o.msgs.iter().skip(fi + 1).collect();
        if let Some(m2) = after.iter().find(|m| m.status != ResponseStatus::Processing as i32) {
            self.violate(rep, 
                &format!("hub/two_final_answers/{fam}"),
                &format!("{} got a second final answer ({} after {})", r.verb.name(), status_name(m2.status), status_name(fin.status)),
                self.witness(c, q, "exactly one final answer", json!({})),
            );
        } else if !after.is_empty() {
            self.violate(rep, 
                &format!("hub/message_after_final/{fam}"),
                &format!("{} received {} more message(s) after its final answer", r.verb.name(), after.len()),
                self.witness(c, q, "nothing after the final answer", json!({})),
            );
        }

        let is_ok = fin.status == ResponseStatus::Ok as i32;
        rep.obs(if is_ok { "final_ok" } else { "final_failure" }, 1);

        // -- which workers were alive at dispatch, and which of them acknowledged in time
        let mut unacked: Vec<(usize, &'static str)> = Vec::new(); // (worker, cause)
        let mut ambiguous = false;
        let mut answered_ok_before_final: Vec<bool> = vec![false; self.s.workers];
        for w in 0..self.s.workers {
            let side = self.run.shared.worker_side.get(&(c, q, w));
            let received = side.map(|s| s.received).unwrap_or(0);
            let closed_at = self.run.shared.closed_at.get(&w).copied();
            if received == 0 {
                match closed_at {
                    Some(t) if t + Duration::from_millis(150) < sent_at => {
                        // dead before the request existed: no obligation
                        rep.obs("worker_dead_at_dispatch", 1);
                        continue;
                    }
                    Some(_) => {
                        ambiguous = true; // closed around the dispatch: cannot tell
                        continue;
                    }
                    None => {
                        if !is_ok {
                            continue; // refused by the main process before any dispatch
                        }
                        unacked.push((w, "never_asked"));
                        continue;
                    }
                }
            }
            let side = side.unwrap();
            // acknowledged = one successful answer per received message, each written before
            // the client saw the final answer
            let oks_before = side.ok_sent.iter().filter(|t| **t <= t_final).count();
            let fails_before = side.fail_sent.iter().filter(|t| **t <= t_final).count();
            if received < r.n_msgs {
                if closed_at.is_some() {
                    ambiguous = true;
                    continue;
                }
                // the hub sent fewer messages than the request contains
                rep.obs("worker_received_fewer_messages_than_expected", 1);
            }
            if fails_before == 0 && side.ok_sent.iter().chain(side.extra_ok_sent.iter()).any(|t| *t <= t_final) {
                answered_ok_before_final[w] = true;
            }
            if fails_before == 0 && oks_before >= received && received >= r.n_msgs {
                continue;
            }
            let b = &r.beh[w];
            let closed_before_final = closed_at.map(|t| t <= t_final).unwrap_or(false);
            // name the cause by what the worker actually did before the client saw the final
            // answer, then by what it was scripted to do
            let cause = if fails_before > 0 {
                "failure"
            } else if closed_before_final {
                "closed_worker"
            } else if b.class == BehClass::LateOk && side.extra_ok_sent.iter().any(|t| *t <= t_final) {
                // answered, but only after the worker timeout had passed
                "late_answer"
            } else if matches!(b.class, BehClass::Silent | BehClass::UnknownId | BehClass::LateOk | BehClass::EndlessProcessing) {
                // processing notices are not an answer
                "silent_worker"
            } else if ttf + 50 >= self.run_timeout_ms() {
                // had the whole worker timeout and did not answer within it
                "silent_worker"
            } else {
                // scripted to answer (or to fail/close) later than the final answer came
                "unanswered_yet"
            };
            unacked.push((w, cause));
        }
        if ambiguous {
            rep.obs("requests_exempt_worker_closed_around_dispatch", 1);
        }

        // -- content affinity
        if is_ok {
            if let Some(problem) = self.content_problem(r, fin, &answered_ok_before_final) {
                if problem.0 == "status_reports_mute_worker_running" {
                    if !ambiguous {
                        self.violate(rep, &format!("hub/{}", problem.0), &problem.1, self.witness(c, q, "a worker is reported RUNNING only if it answered the status request", json!({})));
                    }
                } else {
                    self.violate(rep, &format!("hub/wrong_content/{fam}"), &problem.1, self.witness(c, q, "answer content about this request only", json!({"problem": problem.0})));
                }
            } else if matches!(r.verb, Verb::QueryClusterById | Verb::QueryMetrics | Verb::Status) {
                rep.obs("content_checks_passed", 1);
            }
        }

        // -- the verdict implication
        if !is_ok {
            if unacked.is_empty() && !ambiguous {
                rep.obs("final_failure_although_every_live_worker_acknowledged", 1);
                if fin.message.contains("could not dispatch") {
                    rep.obs("refused_by_main_state", 1);
                }
                // The verdict must match what the workers did: when the request was handed to
                // every registered worker and each of them wrote its successful answers early
                // (in the first half of the worker timeout, so that no deadline is in play), a
                // FAILURE means an acknowledgement was lost on the way. A worker that exits
                // right after acknowledging has acknowledged. Like every verdict that leans on
                // timing it must reproduce on a fresh hub.
                let early_limit = sent_at + Duration::from_millis(self.run_timeout_ms() / 2);
                let all_early = (0..self.s.workers).all(|w| {
                    self.run.shared.worker_side.get(&(c, q, w)).map(|side| {
                        side.received >= r.n_msgs.max(1)
                            && side.ok_sent.len() >= side.received
                            && side.fail_sent.is_empty()
                            && side.ok_sent.iter().all(|t| *t <= early_limit)
                            && self.run.shared.closed_at.get(&w).map(|cl| side.ok_sent.iter().all(|t| t <= cl)).unwrap_or(true)
                    }).unwrap_or(false)
                });
                if all_early && r.damage == Damage::None && !fin.message.contains("could not dispatch") {
                    let sig = format!("hub/failure_although_all_workers_acknowledged/{fam}");
                    let what = format!(
                        "{} got final FAILURE after {ttf} ms ({:?}) although every worker had written its successful answer(s) within {} ms of the dispatch",
                        r.verb.name(),
                        fin.message.chars().take(80).collect::<String>(),
                        self.run_timeout_ms() / 2
                    );
                    return Verdict::TimeBound(sig, what, self.witness(c, q, "final OK (every worker alive at dispatch acknowledged successfully and in time)", json!({})));
                }
            } else {
                rep.obs("final_failure_with_faulty_worker", 1);
            }
            return Verdict::Fine;
        }
        if unacked.is_empty() {
            rep.obs("final_ok_every_live_worker_acknowledged", 1);
            // answers that the hub lost (or sat on) show up as a final answer held back until
            // the worker timeout although the last acknowledgement was written long before
            let last_ack = (0..self.s.workers)
                .filter_map(|w| self.run.shared.worker_side.get(&(c, q, w)))
                .flat_map(|s| s.ok_sent.iter().copied())
                .max();
            if let Some(t) = last_ack {
                if ttf + 50 >= self.run_timeout_ms() && t + Duration::from_millis(400) < t_final && !ambiguous {
                    rep.obs("final_ok_held_back_to_worker_timeout_although_all_acknowledged_early", 1);
                }
            }
            return Verdict::Fine;
        }
        if ambiguous {
            return Verdict::Fine;
        }
        if r.verb == Verb::Status {
            // Status reports per-worker health in its content (checked above): an OK whose
            // content is truthful about the mute workers matches what the workers did
            rep.obs("status_ok_with_truthful_content_despite_faulty_worker", 1);
            return Verdict::Fine;
        }
        // name of the failure class. A request was completed by a duplicate when it finished
        // before the worker timeout although the first answers of the workers (one per
        // dispatched message, successful or not) written by then do not add up to the number
        // of dispatched messages, while they do once duplicate and late answers are added.
        // (A final OK while a live worker has simply not answered yet, without any duplicate to
        // explain it, stays `ok_before_all_workers_answered`.)
        let mut dispatched = 0usize;
        let mut first_answers_before_final = 0usize;
        let mut extra_answers_before_final = 0usize;
        for w in 0..self.s.workers {
            if let Some(side) = self.run.shared.worker_side.get(&(c, q, w)) {
                dispatched += side.received;
                let answered = side.ok_sent.iter().chain(side.fail_sent.iter()).filter(|t| **t <= t_final).count();
                // the hub answers in place of a worker whose channel closed (a failure for each
                // request that worker left unanswered): a closed worker has "answered" everything
                let closed = self.run.shared.closed_at.get(&w).map(|t| *t <= t_final).unwrap_or(false);
                first_answers_before_final += if closed { side.received.max(answered) } else { answered };
                extra_answers_before_final += side.extra_ok_sent.iter().filter(|t| **t <= t_final).count();
            }
        }
        let early = ttf + 50 < self.run_timeout_ms();
        let dup_written = early
            && first_answers_before_final < dispatched
            && first_answers_before_final + extra_answers_before_final >= dispatched
            && (0..self.s.workers).any(|w| {
                r.beh[w].class == BehClass::DupOk
                    && self.run.shared.worker_side.get(&(c, q, w)).map(|s| s.extra_ok_sent.iter().any(|t| *t <= t_final)).unwrap_or(false)
            });
        let causes: BTreeSet<&str> = unacked.iter().map(|u| u.1).collect();
        let class = if causes.contains("never_asked") {
            "ok_worker_never_asked"
        } else if dup_written {
            "ok_by_duplicate_answer"
        } else if causes.contains("failure") {
            "ok_despite_failure"
        } else if causes.contains("closed_worker") {
            "ok_despite_closed_worker"
        } else if causes.contains("silent_worker") {
            "ok_despite_silent_worker"
        } else if causes.contains("late_answer") {
            "ok_despite_late_answer"
        } else {
            "ok_before_all_workers_answered"
        };
        let who: Vec<String> = unacked.iter().map(|(w, cause)| format!("worker {w}: {cause}")).collect();
        // every task type counts answers with the same gatherer: one signature for duplicates
        let signature = if class == "ok_by_duplicate_answer" { format!("hub/{class}") } else { format!("hub/{class}/{fam}") };
        let what = format!(
            "{} got final OK after {ttf} ms ({:?}) although not every worker alive at dispatch had acknowledged: {}",
            r.verb.name(),
            fin.message.chars().take(80).collect::<String>(),
            who.join(", ")
        );
        let witness = self.witness(c, q, "final FAILURE (a live worker failed, disconnected or did not answer within worker_timeout)", json!({"unacknowledged": who}));
        if class == "ok_despite_late_answer" || class == "ok_worker_never_asked" {
            // both rest on this process's threads having run on time (the hub noticing its
            // deadline, the scripted worker reading its channel before the case ended)
            return Verdict::TimeBound(signature, what, witness);
        }
        self.violate(rep, &signature, &what, witness);
        Verdict::Fine
    }

    /// every worker that got the request wrote a successful answer for each of its messages
    /// (at any time during the case), none failed, none was closed
    fn all_workers_acknowledged(&self, c: usize, q: usize) -> bool {
        let r = self.req(c, q);
        let mut any = false;
        for w in 0..self.s.workers {
            let closed = self.run.shared.closed_at.get(&w).copied();
            let Some(side) = self.run.shared.worker_side.get(&(c, q, w)) else { return false };
            if side.received < r.n_msgs || side.ok_sent.len() < side.received || !side.fail_sent.is_empty() {
                return false;
            }
            // a worker that closed its channel after its last acknowledgement did acknowledge
            if let Some(t) = closed {
                if side.ok_sent.iter().any(|a| *a > t) {
                    return false;
                }
            }
            any = true;
        }
        any
    }

    /// record the violation for a request that got no final answer (after it reproduced)
    fn miss_violation(&self, c: usize, q: usize, rep: &mut Report, how: &str) {
        let r = self.req(c, q);
        let fam = r.verb.family();
        let all_acked = self.all_workers_acknowledged(c, q);
        // some worker keeps sending processing notices for this request: with a deadline that
        // notices cannot push back the request would have ended, whatever the other workers did
        let only_notices_missing = !all_acked
            && (0..self.s.workers).any(|w| {
                r.beh[w].class == BehClass::EndlessProcessing
                    && match (self.run.shared.closed_at.get(&w), self.run.obs[c][q].sent_at) {
                        // still sending notices well past the worker timeout
                        (Some(closed), Some(sent)) => *closed > sent + Duration::from_millis(2 * self.run_timeout_ms()),
                        _ => true,
                    }
                    && self.run.shared.worker_side.get(&(c, q, w)).map(|side| side.received > r.beh[w].target_msg).unwrap_or(false)
            });
        let sig = if all_acked {
            format!("hub/no_final_answer_although_all_workers_acknowledged/{fam}")
        } else if only_notices_missing {
            format!("hub/no_final_answer_while_processing_notices_keep_coming/{fam}")
        } else {
            format!("hub/no_final_answer/{fam}")
        };
        let what = format!(
            "{} got no final answer within worker_timeout + {} ms{} (scripted worker behaviours {:?}{}); {how}",
            r.verb.name(),
            slack().as_millis(),
            if all_acked { " although every worker acknowledged every message" } else { "" },
            r.beh.iter().map(|b| b.class.name()).collect::<Vec<_>>(),
            if self.s.chatty.is_empty() { "" } else { ", workers also flooding answers with unknown ids" },
        );
        self.violate(rep, &sig, &what, self.witness(c, q, "one final answer within worker_timeout + slack", json!({"reproduced": how})));
    }

    fn run_timeout_ms(&self) -> u64 {
        WORKER_TIMEOUT_S as u64 * 1000
    }

    fn all_tags(&self) -> Vec<String> {
        let mut v: Vec<String> = self.s.clients.iter().flatten().map(|r| r.tag.clone()).collect();
        if let Some(s) = &self.s.stop {
            v.push(s.tag.clone());
        }
        v
    }

    /// (kind, description) when the content of a final OK is not about this request
    fn content_problem(&self, r: &Req, fin: &Msg, acked: &[bool]) -> Option<(&'static str, String)> {
        let worker_keys: BTreeSet<String> = (0..self.s.workers).map(|w| w.to_string()).collect();
        let ct = fin.content.as_ref().and_then(|c| c.content_type.as_ref());
        match r.verb {
            Verb::QueryClusterById => {
                let Some(ContentType::WorkerResponses(wr)) = ct else {
                    return Some(("missing", "QueryClusterById OK without worker responses".into()));
                };
                for (k, v) in &wr.map {
                    if k != "main" && !worker_keys.contains(k) {
                        return Some(("unknown_worker", format!("answer attributed to unknown worker {k:?}")));
                    }
                    if let Some(ContentType::Clusters(ci)) = &v.content_type {
                        for info in &ci.vec {
                            let id = info.configuration.as_ref().map(|c| c.cluster_id.as_str()).unwrap_or("");
                            if id != r.tag {
                                return Some(("foreign_cluster", format!("QueryClusterById({}) answer from {k} names cluster {id:?}", r.tag)));
                            }
                        }
                    }
                }
                None
            }
            Verb::QueryMetrics => {
                let Some(ContentType::Metrics(m)) = ct else {
                    return Some(("missing", "QueryMetrics OK without aggregated metrics".into()));
                };
                for k in m.clusters.keys() {
                    if k != &r.tag {
                        return Some(("foreign_cluster", format!("QueryMetrics([{}]) answer holds metrics of cluster {k:?}", r.tag)));
                    }
                }
                for (wk, wm) in &m.workers {
                    if !worker_keys.contains(wk) {
                        return Some(("unknown_worker", format!("metrics attributed to unknown worker {wk:?}")));
                    }
                    for k in wm.clusters.keys() {
                        if k != &r.tag {
                            return Some(("foreign_cluster", format!("QueryMetrics([{}]) answer holds metrics of cluster {k:?}", r.tag)));
                        }
                    }
                }
                None
            }
            Verb::Status => {
                let Some(ContentType::Workers(ws)) = ct else {
                    return Some(("missing", "Status OK without worker list".into()));
                };
                let listed: BTreeMap<u32, (i32, i32)> = ws.vec.iter().map(|i| (i.id, (i.pid, i.run_state))).collect();
                for w in 0..self.s.workers {
                    match listed.get(&(w as u32)) {
                        None => return Some(("worker_missing", format!("Status does not list registered worker {w}"))),
                        Some((pid, _)) if *pid != self.run.pids[w] => {
                            return Some(("wrong_pid", format!("Status lists worker {w} with pid {pid}, registered {}", self.run.pids[w])));
                        }
                        Some((_, st)) => {
                            if *st == RunState::Running as i32 && !acked[w] {
                                return Some((
                                    "status_reports_mute_worker_running",
                                    format!("Status reports worker {w} RUNNING although it had written no successful answer to the status request"),
                                ));
                            }
                        }
                    }
                }
                if listed.len() != self.s.workers {
                    return Some(("extra_worker", format!("Status lists {} workers, {} registered", listed.len(), self.s.workers)));
                }
                None
            }
            _ => None,
        }
    }
}

/// the same request alone on a fresh hub, every worker doing to it what it did in the full
/// case (a worker that another request's script had closed is closed here too)
fn isolated(s: &Scenario, run: &CaseRun, c: usize, q: usize) -> Scenario {
    let mut r = if c < s.clients.len() { s.clients[c][q].clone() } else { s.stop.clone().unwrap() };
    r.pre_delay_ms = 0;
    let mut pre_closed = Vec::new();
    let sent_at = run.obs[c][q].sent_at;
    for w in 0..s.workers {
        let Some(closed) = run.shared.closed_at.get(&w).copied() else { continue };
        let side = run.shared.worker_side.get(&(c, q, w));
        let received = side.map(|x| x.received).unwrap_or(0);
        if received == 0 {
            if sent_at.map(|t| closed < t).unwrap_or(false) {
                pre_closed.push(w);
                r.pre_delay_ms = 400;
            }
            continue;
        }
        let side = side.unwrap();
        let acked = side.ok_sent.iter().filter(|t| **t <= closed).count() >= r.n_msgs;
        if !acked && r.beh[w].class != BehClass::Close {
            let first = side.first_received_at.unwrap_or(closed);
            r.beh[w].class = BehClass::Close;
            r.beh[w].delay_ms = closed.saturating_duration_since(first).as_millis() as u64;
            r.beh[w].target_msg = 0;
        }
    }
    let mut iso = Scenario::single(s.case, s.seed, s.workers, r);
    iso.exhaustive_block = s.exhaustive_block;
    iso.pre_closed = pre_closed;
    iso.chatty = s.chatty.clone();
    iso
}

fn run_case(ctx: &Ctx, case: u64, plan: (u64, u64), rep: &mut Report) {
    let s = gen_scenario(ctx.seed, case, plan.0, plan.1);
    if s.skipped_by_design {
        // a soft stop has no deadline by design: with a worker that never ends it waits for ever,
        // which the statement cannot hold against it; the assignment is not run
        rep.obs("soft_stop_assignments_with_a_never_ending_worker_not_run", 1);
        if s.exhaustive_block {
            rep.obs(&format!("exhaustive_block_cases:W={}", s.workers), 1);
        }
        return;
    }
    let run = run_scenario(&ctx.root, &s);
    evaluate(ctx, &s, &run, rep, true);
    // shape of the case for the distinct count
    let mut shape: Vec<u8> = vec![s.workers as u8, s.clients.len() as u8];
    for r in s.clients.iter().flatten().chain(s.stop.iter()) {
        shape.push(r.verb as u8);
        shape.push(r.n_msgs as u8);
        for b in &r.beh {
            shape.push(b.class as u8);
            shape.push((b.delay_ms / 10) as u8);
        }
        shape.push(0xff);
    }
    let faulty = s.clients.iter().flatten().chain(s.stop.iter()).any(|r| r.beh.iter().any(|b| b.class != BehClass::Ok));
    rep.case_bytes(&shape, faulty || s.clients.len() > 1);
    if case % 97 == 0 {
        rep.sample(json!({"scenario": scenario_json(&s),
            "finals": run.obs.iter().map(|c| c.iter().map(|o| o.final_idx.map(|i| json!({"status": status_name(o.msgs[i].status), "at_ms": o.msgs[i].at_ms}))).collect::<Vec<_>>()).collect::<Vec<_>>()}));
    }
}

fn evaluate(ctx: &Ctx, s: &Scenario, run: &CaseRun, rep: &mut Report, allow_rerun: bool) {
    if let Some(e) = &run.lab_error {
        rep.inconclusive(&format!("hub lab did not start: {}", e.chars().take(80).collect::<String>()));
        return;
    }
    rep.obs(&format!("W={}", s.workers), 1);
    rep.obs(&format!("concurrent_clients={}", s.clients.len()), 1);
    if s.exhaustive_block {
        rep.obs(&format!("exhaustive_block_cases:W={}", s.workers), 1);
    }
    let judge = Judge { ctx, s, run };
    for (c, reqs) in run.obs.iter().enumerate() {
        for q in 0..reqs.len() {
            let verdict = judge.judge(c, q, rep);
            if let Verdict::TimeBound(sig, _, _) = &verdict {
                rep.obs("time_bound_verdicts_re_run", 1);
                let tag = judge.req(c, q).tag.clone();
                let mut attempts = vec![s.clone()];
                if s.clients.iter().map(|v| v.len()).sum::<usize>() + s.stop.iter().count() > 1 {
                    attempts.insert(0, isolated(s, run, c, q));
                }
                let mut reproduced = false;
                for sc in attempts {
                    let run2 = run_scenario(&ctx.root, &sc);
                    if run2.lab_error.is_some() {
                        continue;
                    }
                    let j2 = Judge { ctx, s: &sc, run: &run2 };
                    let mut scratch = rep.fork();
                    for (c2, reqs) in run2.obs.iter().enumerate() {
                        for q2 in 0..reqs.len() {
                            if j2.req(c2, q2).tag != tag {
                                continue;
                            }
                            if let Verdict::TimeBound(sig2, what2, witness2) = j2.judge(c2, q2, &mut scratch) {
                                if &sig2 == sig && !reproduced {
                                    reproduced = true;
                                    violate_weighted(rep, scenario_weight(&sc), &sig2, &format!("{what2}; reproduced on a fresh hub"), witness2);
                                }
                            }
                        }
                    }
                    if reproduced {
                        break;
                    }
                }
                if !reproduced {
                    rep.obs(&format!("time_bound_verdict_not_reproduced:{sig}"), 1);
                    rep.inconclusive("time-bound verdict (late answer accepted / worker never asked) not reproduced on a fresh hub");
                }
            }
            if verdict == Verdict::Miss {
                rep.obs("no_final_answer_by_deadline", 1);
                if !allow_rerun {
                    continue;
                }
                // bounded-liveness miss: a violation only when it reproduces on a fresh hub,
                // first with this request alone (workers doing to it what they did here), then
                // with the whole scenario again
                let tag = judge.req(c, q).tag.clone();
                let fam = judge.req(c, q).verb.family();
                let all_acked = judge.all_workers_acknowledged(c, q);
                let mut attempts = Vec::new();
                if s.chatty.is_empty() {
                    attempts.push((isolated(s, run, c, q), "reproduced with the request alone on a fresh hub"));
                }
                if s.clients.iter().map(|v| v.len()).sum::<usize>() + s.stop.iter().count() > 1 {
                    attempts.push((s.clone(), "reproduced by re-running the whole scenario on a fresh hub"));
                    if !s.chatty.is_empty() {
                        // a race: give it a second chance
                        attempts.push((s.clone(), "reproduced by re-running the whole scenario on a fresh hub (second attempt)"));
                    }
                }
                let mut reproduced = false;
                for (sc, how) in attempts {
                    let run2 = run_scenario(&ctx.root, &sc);
                    if run2.lab_error.is_some() {
                        continue;
                    }
                    let j2 = Judge { ctx, s: &sc, run: &run2 };
                    // the same request again without a final answer; failing that, another
                    // request of the same scenario failing the same way (same verb family,
                    // same acknowledgement state)
                    let mut found = None;
                    for (c2, reqs) in run2.obs.iter().enumerate() {
                        for (q2, o2) in reqs.iter().enumerate() {
                            let missed = o2.sent_at.is_some() && !o2.skipped && o2.harness_error.is_none() && o2.final_idx.is_none();
                            if !missed {
                                continue;
                            }
                            let r2 = j2.req(c2, q2);
                            if r2.tag == tag {
                                found = Some((c2, q2));
                            } else if found.is_none() && r2.verb.family() == fam && j2.all_workers_acknowledged(c2, q2) == all_acked {
                                found = Some((c2, q2));
                            }
                        }
                    }
                    if let Some((c2, q2)) = found {
                        rep.obs("misses_reproduced_on_a_fresh_hub", 1);
                        j2.miss_violation(c2, q2, rep, how);
                        reproduced = true;
                        break;
                    }
                }
                if !reproduced {
                    rep.obs(if judge.all_workers_acknowledged(c, q) { "unreproduced_miss_although_all_workers_acknowledged" } else { "unreproduced_miss_with_faulty_worker" }, 1);
                    rep.inconclusive("no final answer by the deadline, not reproduced on a fresh hub");
                }
            }
        }
    }
    // -- hub thread health
    for p in &run.shutdown.panics {
        if p.in_sozu() {
            violate_weighted(rep, scenario_weight(s), 
                &format!("hub/hub_thread_died/{}", p.signature()),
                &format!("the hub thread panicked: {} at {}", p.message, p.location),
                json!({"case": s.case, "seed": s.seed, "panic": p.message, "location": p.location, "scenario": scenario_json(s)}),
            );
        } else {
            rep.broken(&format!("harness panic in hub thread: {} at {}", p.message, p.location));
        }
    }
    match &run.responsive {
        Some(Ok(list)) => {
            rep.obs("responsiveness_probe_answered", 1);
            for (id, _pid, st) in list {
                if *st == RunState::Stopped as i32 && run.shared.closed_at.contains_key(&(*id as usize)) {
                    rep.obs("closed_workers_listed_stopped", 1);
                }
            }
        }
        Some(Err(e)) => {
            if run.shutdown.panics.iter().any(|p| p.in_sozu()) {
                // already reported as a panic
            } else if allow_rerun {
                rep.inconclusive(&format!("responsiveness probe failed: {}", e.chars().take(60).collect::<String>()));
            }
        }
        None => {}
    }
    if !run.shutdown.hub_exited {
        rep.inconclusive("hub thread could not be stopped at the end of the case");
    }
    if s.stop.is_some() {
        rep.obs(if run.shutdown.exited_before_stop { "hub_exited_after_stop_verb" } else { "hub_still_running_after_stop_verb" }, 1);
    }
    let killed = run.shutdown.killed_by_hub.iter().filter(|k| **k).count() as u64;
    rep.obs("dummy_workers_found_killed_at_shutdown", killed);
    rep.obs("dummy_workers_killed_by_hub", run.killed_after_close);
    rep.obs("worker_channels_closed_by_script", run.shared.closed_at.len() as u64);
    if !run.shared.unroutable_worker_requests.is_empty() {
        rep.obs("worker_requests_not_attributable", run.shared.unroutable_worker_requests.len() as u64);
    }
    for e in run.shared.worker_errors.iter().take(1) {
        rep.obs("worker_side_io_errors", 1);
        let _ = e;
    }
}

pub fn run(ctx: &Ctx) -> Report {
    let mut rep = Report::new(
        "fault_enumeration",
        "one real CommandHub per case with W scripted workers (each registered with the pid of a dummy child) and a worker_timeout of 1 s. Block 1 enumerates, for each verb family {mutating, query, metrics, status, load_state, reload, hard_stop, soft_stop}, ALL assignments of the 10 worker behaviours {ok, failure, silent, close channel, duplicate ok, late ok after the deadline, k x processing then final, answer with unknown id, ok then close at once, endless processing notices without a final answer} to W=1 and W=2 workers on a single request (10+100 per family; `exhaustive` refers to this sub-space; delays, k, notice period and the message hit in multi-message verbs are seeded; soft-stop assignments with a never-ending worker are not run, see assumptions). Block 2 (12 cases) overlaps two deadlines (request A with one late-answering worker, request B of another client 0.6-0.8 s later with a mute worker) or staggers the answers to one request (one worker at 0.8 s, another after the deadline). Block 3 (24 cases, every family, W=1..2; in the last 8 a second client's request reaches the held hub before the worker closes, so that a write to the dead channel is pending) holds the hub thread busy (another client's SaveState into a FIFO nobody reads yet) while one worker acknowledges and closes its channel, so that answer and hang-up reach the hub in one event. Block 4 (16 cases) loads state files that are sound, have valid records followed by a truncated or a garbage record, or hold nothing readable, with acknowledging or mute workers, followed by a second request on the same connection. Block 5 (race) has well-behaved workers that also flood answers with unknown ids around each dispatch, 6-8 sequential requests. Block 6 samples W in 1..4 (mostly 3..4), 1..8 concurrent clients with 1..3 requests each, random behaviours, delays and state-file damage, optionally a final HardStop or SoftStop. Oracle: exactly one final answer per request within worker_timeout + 3 s and nothing after it (every wall-clock margin is multiplied by a factor measured at start from Status round trips and sleep overshoot; a miss, an accepted late answer or a worker that was never asked is re-run on a fresh hub, first the request alone with the workers doing to it what they did, then the whole scenario, and only a reproduced one is a violation, else inconclusive); final OK only if every worker that received the request had written a successful answer for each of its messages before the client saw the final answer; no foreign tag/content in any message; hub thread alive (no panic under /repo) and answering a fresh ListWorkers. A case is non-trivial when some worker misbehaves or clients are concurrent; distinct = distinct (W, verbs, behaviour classes, delays) shapes",
    );
    rep.assume("a worker counts as alive at dispatch iff it read the request off its channel; requests racing with a scripted channel close are exempt");
    rep.assume("a worker whose channel closed before the final answer disconnected: the final answer must be a failure; the main process answering its pending requests in its place does not make an OK a duplicate-driven or premature one");
    rep.assume("Status is not among the verbs the statement quantifies over: an OK whose worker list is truthful (no mute worker reported RUNNING) is accepted and counted as exempt");
    rep.assume("SoftStop has no deadline by design (it waits for the workers' sessions to end): it is driven only with workers that eventually send a final answer or close their channel, and a late answer is a plain answer there; assignments with a never-ending worker (silent, unknown id, endless processing) are not run");
    rep.assume("a worker that acknowledges and closes its channel at once has acknowledged (\"disconnected\" in the statement is read as disconnecting instead of answering): its answer must be counted like any other");
    rep.assume("PROCESSING notices are not an answer: a worker that only sends notices did not answer within the worker timeout, for the per-answer deadline of LoadState/ReloadConfiguration as well (only final answers and further dispatches may push that deadline back)");
    rep.assume("a LoadState of a damaged or unreadable state file must get exactly one final answer; which status is not judged by this property");
    rep.assume("the verdict has to match what the workers did: a final FAILURE is a violation when the request reached every registered worker and each wrote all its successful answers in the first half of the worker timeout (an acknowledgement was lost), provided it reproduces on a fresh hub; other failures with all workers acknowledging (near the deadline, refused by the main state, damaged state file, a worker dead before dispatch) are only counted");
    rep.assume("each client sends one request at a time per connection (pipelining is outside the stated quantifier); untagged verbs (Status, QueryClustersHashes, HardStop, SoftStop) are in flight one at a time per hub so that worker-side requests can be attributed");
    for k in [
        "beh:mutating:silent",
        "beh:mutating:failure",
        "beh:mutating:dup_ok",
        "beh:mutating:close",
        "beh:mutating:late_ok",
        "beh:mutating:unknown_id",
        "beh:mutating:processing_then_final",
        "beh:query:failure",
        "beh:load_state:silent",
        "beh:mutating:ok_then_close",
        "beh:mutating:endless_processing",
        "beh:load_state:endless_processing",
        "beh:soft_stop:ok_then_close",
        "beh:soft_stop:close",
        "hub_thread_held_busy_confirmed",
        "load_state_file:valid_records_then_truncated_record",
        "load_state_file:valid_records_then_garbage_record",
        "load_state_file:no_readable_record",
        "final_ok_every_live_worker_acknowledged",
        "final_failure_with_faulty_worker",
        "finals_at_or_after_worker_timeout",
        "dummy_workers_killed_by_hub",
        "responsiveness_probe_answered",
        "content_checks_passed",
    ] {
        rep.require(k);
    }
    let mut calibration = calibrate(&ctx.root);
    if let Some(forced) = ctx.opt("time_scale").and_then(|s| s.parse::<f64>().ok()) {
        // for trying the check out as on a slower machine
        TIME_SCALE_MILLI.store((forced.clamp(1.0, 8.0) * 1000.0) as u64, Ordering::Relaxed);
        calibration["time_scale_forced"] = json!(forced);
    }
    rep.set("calibration", calibration);
    let exhaustive_reps = ctx.opt_u64("reps", ctx.tier.pick(1, 6));
    let race_cases = ctx.opt_u64("race", ctx.tier.pick(24, 240));
    if let Some(path) = &ctx.replay {
        let v: Value = serde_json::from_str(&fs::read_to_string(path).unwrap_or_default()).unwrap_or(Value::Null);
        let mut c2 = ctx.clone();
        if let Some(seed) = v["seed"].as_u64() {
            c2.seed = seed;
        } else if let Some(seed) = v["seed"].as_i64() {
            c2.seed = seed as u64;
        }
        // the case -> scenario mapping depends on the plan sizes of the run that wrote the file
        let file_tier_thorough = v["tier"].as_str() == Some("thorough");
        let opt_of = |k: &str, quick: u64, thorough: u64| -> u64 {
            v["opts"][k].as_str().and_then(|s| s.parse().ok()).unwrap_or(if file_tier_thorough { thorough } else { quick })
        };
        let exhaustive_reps = opt_of("reps", 1, 6);
        let race_cases = opt_of("race", 24, 240);
        let cases: BTreeSet<u64> = v["witnesses"].as_array().map(|a| a.iter().filter_map(|w| w["case"].as_u64()).collect()).unwrap_or_default();
        rep.required.clear();
        for c in cases {
            run_case(&c2, c, (exhaustive_reps, race_cases), &mut rep);
        }
        return rep;
    }
    if ctx.opt("probe") == Some("reload_missing_path") {
        // by-product probe, never part of a normal run (bad client input is outside C09's
        // quantifier): does a ReloadConfiguration naming a missing file take the hub down?
        rep.required.clear();
        match HubLab::start(&ctx.root, 1, WORKER_TIMEOUT_S, |_| {}) {
            Ok(mut lab) => {
                let _workers = lab.take_workers();
                let answer = lab.client().and_then(|mut c| c.request(RequestType::ReloadConfiguration("/nonexistent/c09.toml".into()), Duration::from_secs(3)));
                drop(_workers);
                let sd = lab.shutdown();
                eprintln!("answer: {:?}\nshutdown: {sd:?}", answer.map(|(p, f)| (p.len(), f.map(|f| (f.status, f.message)))));
                for p in sd.panics.iter().filter(|p| p.in_sozu()) {
                    rep.violation(&format!("hub/hub_thread_died/{}", p.signature()), &format!("ReloadConfiguration of a missing file: the hub thread panicked: {} at {}", p.message, p.location), json!({"case": 0, "request": "ReloadConfiguration(\"/nonexistent/c09.toml\")"}));
                }
            }
            Err(e) => rep.broken(&format!("hub lab did not start: {e}")),
        }
        rep.case(0, true);
        return rep;
    }
    if let Some(only) = ctx.opt("only").and_then(|s| s.parse::<u64>().ok()) {
        rep.required.clear();
        let s = gen_scenario(ctx.seed, only, exhaustive_reps, race_cases);
        let run = run_scenario(&ctx.root, &s);
        if ctx.opt("print").is_some() {
            eprintln!("{}", serde_json::to_string_pretty(&scenario_json(&s)).unwrap_or_default());
            for (c, reqs) in run.obs.iter().enumerate() {
                for (q, o) in reqs.iter().enumerate() {
                    eprintln!("client {c} req {q}: {} err={:?} closed={}", msgs_json(o), o.harness_error, o.connection_closed_by_hub);
                }
            }
            eprintln!("responsive: {:?}\nshutdown: {:?}\nunroutable: {:?}\nworker errors: {:?}", run.responsive, run.shutdown, run.shared.unroutable_worker_requests, run.shared.worker_errors);
        }
        evaluate(ctx, &s, &run, &mut rep, true);
        rep.case(only, true);
        return rep;
    }
    let sampled = ctx.opt_u64("sampled", ctx.tier.pick(200, 3000));
    let n = exhaustive_block_len() * exhaustive_reps + OVERLAP_CASES + SAME_TICK_CASES + DAMAGED_STATE_CASES + race_cases + sampled;
    let mut c2 = ctx.clone();
    c2.threads = ctx.opt_u64("par", (ctx.threads as u64 * 4).clamp(8, 96)) as usize;
    let from = ctx.opt_u64("from", 0);
    let n = ctx.opt_u64("to", n).min(n).saturating_sub(from);
    par_cases(&c2, &mut rep, n, |i, r| run_case(ctx, from + i, (exhaustive_reps, race_cases), r));
    // witnesses: the simplest scenario seen for each signature first, then up to two others
    {
        let best = std::mem::take(&mut *SIMPLEST.lock().unwrap_or_else(|e| e.into_inner()));
        let others = std::mem::take(&mut rep.violations);
        for (sig, (_, v)) in best {
            let case = v.witness["case"].clone();
            rep.violations.push(v);
            rep.violations.extend(others.iter().filter(|o| o.signature == sig && o.witness["case"] != case).take(2).cloned());
        }
        let known: BTreeSet<String> = rep.violations.iter().map(|v| v.signature.clone()).collect();
        rep.violations.extend(others.into_iter().filter(|o| !known.contains(&o.signature)));
    }
    let done = rep.observed.get("exhaustive_block_cases:W=1").copied().unwrap_or(0) + rep.observed.get("exhaustive_block_cases:W=2").copied().unwrap_or(0);
    let complete = from == 0 && done >= exhaustive_block_len() * exhaustive_reps;
    rep.exhaustive = Some(complete);
    rep.set(
        "exhaustive_subspace",
        json!({"what": "all assignments of 10 behaviour classes to W<=2 workers on a single request, per verb family",
            "families": FAMILY_VERBS.iter().map(|v| v.family()).collect::<Vec<_>>(),
            "assignments_per_family": EXHAUSTIVE_PER_FAMILY, "cases_expected": exhaustive_block_len() * exhaustive_reps, "cases_run": done,
            "complete": complete}),
    );
    rep
}
