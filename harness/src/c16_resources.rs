//! C16 — Resources return to baseline and admission limits are never exceeded.
//!
//! Live-worker lab. Each *case* is one cell (a real sozu worker + scripted backends on a private
//! loopback address) of one of three kinds:
//!   * conservation cells: many mixes of session outcomes (one outcome class per mix, or a blend
//!     that is bisected on failure); fresh baseline before each mix; after the mix every harness
//!     socket is closed and the end-of-iteration snapshot (hook H3) must return to the baseline;
//!     `QueryMetrics` gauges must agree with the hook; `gauge_underflow.*` must stay 0; idle and
//!     stuck sessions must be reclaimed within their timeouts (+ slack);
//!   * admission cells: `max_connections` in 4..32, storms of 2-5x as many clients whose requests
//!     the backends park; harness-measured concurrency and the hook's running maximum must stay
//!     <= max_connections; accepting must resume once load dropped;
//!   * per-IP cells: `max_connections_per_ip` (global / per-cluster / changed at runtime) with
//!     clients bound to chosen 127.x.y.z source addresses.
//! Bounded-time verdicts are re-run once in isolation (all other cells paused) before they count.

mod admission;
mod backend;
mod client;
mod h2;
mod perip;
mod timerlab;

use std::{
    collections::BTreeMap,
    net::Ipv4Addr,
    sync::{
        Arc, Mutex, RwLock,
        atomic::{AtomicUsize, Ordering},
    },
    time::{Duration, Instant},
};

use serde_json::{Value, json};
use sozu_command_lib::proto::command::{
    Cluster, QueryMetricsOptions, ResponseContent, ResponseStatus, Status, WorkerMetrics, filtered_metrics::Inner,
    request::RequestType, response_content::ContentType,
};
use sozu_lib::verif::LoopSnapshot;

use crate::{
    common::{Ctx, Report, Rng, par_cases},
    lab::{self, Worker, WorkerOpts},
    peers::{BackendServer, IoProgram, tls},
};

use backend::BackendCtl;
use client::{ALL_CLASSES, Class, Conn, Env};

/// `h2_stream_idle_timeout_seconds` of every lab listener
const H2_STREAM_IDLE_S: u32 = 2;
const S_CELL: u64 = 0xC16_0001;
const S_MIX: u64 = 0xC16_0002;
const S_SESSION: u64 = 0xC16_0003;

/// Isolation gate: ordinary mixes hold a read guard; an isolated re-run holds the write guard.
static GATE: RwLock<()> = RwLock::new(());

/// a bounded-time miss that has to be reproduced in isolation before it counts
#[derive(Clone, Debug)]
pub struct Candidate {
    pub signature: String,
    pub what: String,
    pub witness: Value,
}

#[derive(Clone, Debug)]
pub struct CellCfg {
    pub kind: &'static str,
    pub max_connections: u64,
    pub max_buffers: u64,
    pub front_timeout: u32,
    pub back_timeout: u32,
    pub request_timeout: u32,
    pub connect_timeout: u32,
    pub accept_queue_timeout: u32,
    pub evict: bool,
    pub per_ip: u64,
    pub cluster_a_per_ip: Option<u64>,
    pub tcp_per_ip: Option<u64>,
    pub front_sndbuf: Option<i64>,
}

impl CellCfg {
    fn json(&self) -> Value {
        json!({"kind": self.kind, "max_connections": self.max_connections, "max_buffers": self.max_buffers,
            "front_timeout": self.front_timeout, "back_timeout": self.back_timeout, "request_timeout": self.request_timeout,
            "connect_timeout": self.connect_timeout, "accept_queue_timeout": self.accept_queue_timeout,
            "evict_on_queue_full": self.evict, "max_connections_per_ip": self.per_ip,
            "cluster_a_max_connections_per_ip": self.cluster_a_per_ip, "tcp_cluster_max_connections_per_ip": self.tcp_per_ip,
            "front_sndbuf": self.front_sndbuf})
    }
    /// sum of the timeouts that can chain on one idle / stuck session, in ms
    fn timeout_sum_ms(&self) -> u64 {
        (self.front_timeout + self.back_timeout + self.request_timeout + self.connect_timeout + H2_STREAM_IDLE_S) as u64 * 1000
    }
}

pub struct Cell {
    pub cfg: CellCfg,
    pub ip: Ipv4Addr,
    pub w: Worker,
    pub env: Arc<Env>,
    pub ctl: Arc<BackendCtl>,
    backends: Vec<BackendServer>,
    underflow_seen: BTreeMap<String, u64>,
}

/// the part of a snapshot the conservation oracle looks at
#[derive(Clone, Debug, PartialEq, Eq)]
pub struct Foot {
    pub nb_connections: usize,
    pub slab_len: usize,
    pub pool_used: usize,
    pub accept_queue_len: usize,
    pub per_ip_entries: usize,
    pub per_ip_total: usize,
    pub per_ip_tracks: usize,
    pub backend_active_connections: usize,
    pub backend_active_requests: usize,
}

pub fn foot(s: &LoopSnapshot) -> Foot {
    Foot {
        nb_connections: s.nb_connections,
        slab_len: s.slab_len,
        pool_used: s.pool_used,
        accept_queue_len: s.accept_queue_len,
        per_ip_entries: s.per_cluster_ip_entries,
        per_ip_total: s.per_cluster_ip_total,
        per_ip_tracks: s.cluster_ip_tracks,
        backend_active_connections: s.backends.iter().map(|b| b.active_connections).sum(),
        backend_active_requests: s.backends.iter().map(|b| b.active_requests).sum(),
    }
}

impl Foot {
    fn json(&self) -> Value {
        json!({"nb_connections": self.nb_connections, "slab_len": self.slab_len, "pool_used": self.pool_used,
            "accept_queue_len": self.accept_queue_len, "per_ip_entries": self.per_ip_entries, "per_ip_total": self.per_ip_total,
            "per_ip_tracks": self.per_ip_tracks, "backend_active_connections": self.backend_active_connections,
            "backend_active_requests": self.backend_active_requests})
    }
    /// (field, expected, observed) for every field off its value in the baseline taken before the
    /// mix (on a fresh worker the baseline is the idle value: 0 sessions, 0 slots, 0 backend counts)
    pub fn deviations(&self, base: &Foot) -> Vec<(&'static str, usize, usize)> {
        let mut d = Vec::new();
        let mut chk = |name, exp: usize, obs: usize| {
            if exp != obs {
                d.push((name, exp, obs));
            }
        };
        chk("nb_connections", base.nb_connections, self.nb_connections);
        chk("slab_len", base.slab_len, self.slab_len);
        chk("pool_used", base.pool_used, self.pool_used);
        chk("accept_queue_len", base.accept_queue_len, self.accept_queue_len);
        chk("per_ip_entries", base.per_ip_entries, self.per_ip_entries);
        chk("per_ip_total", base.per_ip_total, self.per_ip_total);
        chk("per_ip_tracks", base.per_ip_tracks, self.per_ip_tracks);
        chk("backend_active_connections", base.backend_active_connections, self.backend_active_connections);
        chk("backend_active_requests", base.backend_active_requests, self.backend_active_requests);
        d
    }
    /// no session object is left: what still deviates can never be repaired by a timer
    pub fn sessions_gone(&self, base: &Foot) -> bool {
        self.nb_connections == base.nb_connections && self.slab_len == base.slab_len && self.accept_queue_len == base.accept_queue_len && self.pool_used == base.pool_used
    }
}

pub enum Settle {
    Clean(LoopSnapshot, u64),
    /// clean only after the grace period (ms)
    Late(LoopSnapshot, u64),
    Dirty(LoopSnapshot),
    WorkerGone,
}

impl Cell {
    pub fn start(cfg: CellCfg) -> Result<Cell, String> {
        let ip = lab::fresh_ip();
        let front = lab::sa(ip, 8080);
        let front_tls = lab::sa(ip, 8443);
        let front_tcp = lab::sa(ip, 8090);
        let front_tcp_dead = lab::sa(ip, 8091);
        let back_a = lab::sa(ip, 9000);
        let back_b = lab::sa(ip, 9001);
        let back_dead = lab::sa(ip, 9009);
        let back_tcp = lab::sa(ip, 9100);
        let back_h2c = lab::sa(ip, 9002);
        let ctl = Arc::new(BackendCtl::default());
        let mut backends = Vec::new();
        for addr in [back_a, back_b] {
            let c = ctl.clone();
            backends.push(BackendServer::start(addr, IoProgram::fast(), move |s, _| backend::h1_handler(&c, s)).map_err(|e| format!("backend {addr}: {e}"))?);
        }
        let c = ctl.clone();
        backends.push(BackendServer::start(back_h2c, IoProgram::fast(), move |s, _| backend::h2c_handler(&c, s)).map_err(|e| format!("backend {back_h2c}: {e}"))?);
        let c = ctl.clone();
        backends.push(BackendServer::start(back_tcp, IoProgram::fast(), move |s, _| backend::tcp_handler(&c, s)).map_err(|e| format!("backend {back_tcp}: {e}"))?);

        let mut opts = WorkerOpts {
            max_connections: cfg.max_connections,
            max_buffers: cfg.max_buffers,
            front_timeout: cfg.front_timeout,
            back_timeout: cfg.back_timeout,
            connect_timeout: cfg.connect_timeout,
            request_timeout: cfg.request_timeout,
            accept_queue_timeout: cfg.accept_queue_timeout,
            evict_on_queue_full: cfg.evict,
            max_connections_per_ip: cfg.per_ip,
            ..WorkerOpts::default()
        };
        if let Some(v) = cfg.front_sndbuf {
            opts.knobs.push(("front_sndbuf".into(), v));
        }
        let mut w = Worker::start(opts);
        let (ft, bt, ct, rt) = (cfg.front_timeout, cfg.back_timeout, cfg.connect_timeout, cfg.request_timeout);
        let tweak = move |b: &mut sozu_command_lib::config::ListenerBuilder| {
            b.front_timeout = Some(ft);
            b.back_timeout = Some(bt);
            b.connect_timeout = Some(ct);
            b.request_timeout = Some(rt);
            // documented default is max(30, back_timeout): an H2 stream whose client vanished may
            // legitimately live that long, so the labs configure it like the other timeouts
            b.h2_stream_idle_timeout_seconds = Some(H2_STREAM_IDLE_S);
        };
        let cluster = |id: &str, per_ip: Option<u64>| Cluster { cluster_id: id.into(), max_connections_per_ip: per_ip, ..Default::default() };
        let cert = std::fs::read_to_string("/repo/lib/assets/certificate.pem").unwrap_or_default();
        let key = std::fs::read_to_string("/repo/lib/assets/key.pem").unwrap_or_default();
        let ok = w.add_http_listener(front, tweak)
            && w.add_https_listener(front_tls, tweak)
            && w.add_tcp_listener(front_tcp, tweak)
            && w.add_tcp_listener(front_tcp_dead, tweak)
            && w.add_cluster(cluster("a", cfg.cluster_a_per_ip))
            && w.add_cluster(cluster("b", None))
            && w.add_cluster(cluster("refuse", None))
            && w.add_cluster(Cluster { cluster_id: "h2c".into(), http2: Some(true), ..Default::default() })
            && w.add_http_frontend(Worker::http_frontend("h2c", front, "h2c.test", "/"))
            && w.add_https_frontend(Worker::http_frontend("h2c", front_tls, "h2c.test", "/"))
            && w.add_backend("h2c", "h0", back_h2c)
            && w.add_cluster(cluster("tcp", cfg.tcp_per_ip))
            && w.add_cluster(cluster("tcpdead", None))
            && w.add_http_frontend(Worker::http_frontend("a", front, "a.test", "/"))
            && w.add_http_frontend(Worker::http_frontend("b", front, "b.test", "/"))
            && w.add_http_frontend(Worker::http_frontend("refuse", front, "refuse.test", "/"))
            && w.add_certificate(front_tls, &cert, vec![], &key, vec!["a.test".into(), "b.test".into(), "refuse.test".into(), "h2c.test".into()])
            && w.add_https_frontend(Worker::http_frontend("a", front_tls, "a.test", "/"))
            && w.add_https_frontend(Worker::http_frontend("b", front_tls, "b.test", "/"))
            && w.add_https_frontend(Worker::http_frontend("refuse", front_tls, "refuse.test", "/"))
            && w.add_tcp_frontend("tcp", front_tcp)
            && w.add_tcp_frontend("tcpdead", front_tcp_dead)
            && w.add_backend("a", "a0", back_a)
            && w.add_backend("b", "b0", back_b)
            && w.add_backend("refuse", "r0", back_dead)
            && w.add_backend("tcp", "t0", back_tcp)
            && w.add_backend("tcpdead", "d0", back_dead);
        if !ok {
            let _ = w.stop();
            return Err("worker configuration was not accepted".into());
        }
        let env = Arc::new(Env {
            front,
            front_tls,
            front_tcp,
            front_tcp_dead,
            tls_h1: tls::client_config(&["http/1.1"]),
            tls_bad_alpn: tls::client_config(&["spdy/9"]),
            tls_h2: tls::client_config(&["h2"]),
            ctl: ctl.clone(),
            probe: w.probe.clone(),
            reclaim_bound_ms: cfg.timeout_sum_ms() + 2500,
        });
        Ok(Cell { cfg, ip, w, env, ctl, backends, underflow_seen: BTreeMap::new() })
    }

    /// one Status round trip: wakes the event loop (a new snapshot follows)
    pub fn ping(&mut self) -> bool {
        matches!(self.w.call(RequestType::Status(Status {}), Duration::from_secs(3)), Ok(r) if r.status == ResponseStatus::Ok as i32)
    }

    /// a snapshot published by an iteration that ended after this call started
    pub fn fresh_snapshot(&mut self) -> Option<LoopSnapshot> {
        let it = self.w.probe.snapshot().iteration;
        if !self.ping() || !self.ping() {
            return None;
        }
        let start = Instant::now();
        loop {
            let s = self.w.probe.snapshot();
            if s.iteration > it + 1 {
                return Some(s);
            }
            if start.elapsed() > Duration::from_millis(50) {
                if !self.ping() {
                    return None;
                }
            }
            if start.elapsed() > Duration::from_secs(4) {
                return None;
            }
            std::thread::sleep(Duration::from_millis(1));
        }
    }

    /// idle footprint before traffic (must be stable and free of sessions)
    pub fn baseline(&mut self) -> Option<Foot> {
        let start = Instant::now();
        let mut last: Option<Foot> = None;
        let mut same = 0;
        while start.elapsed() < Duration::from_secs(6) {
            let f = foot(&self.fresh_snapshot()?);
            if last.as_ref() == Some(&f) {
                same += 1;
                if same >= 2 {
                    return Some(f);
                }
            } else {
                same = 0;
            }
            last = Some(f);
            std::thread::sleep(Duration::from_millis(3));
        }
        None
    }

    /// wait for the footprint to be back at the baseline: 3 consecutive clean fresh snapshots.
    /// `grace` bounds the normal wait; a dirty footprint is watched for another 5 s to tell a late
    /// reclaim from a leak.
    pub fn settle(&mut self, base: &Foot, grace: Duration) -> Settle {
        let start = Instant::now();
        let hard = grace + Duration::from_secs(5);
        let mut clean = 0;
        let mut gone_same = 0;
        let mut last = self.w.probe.snapshot();
        loop {
            match self.fresh_snapshot() {
                Some(s) => {
                    if foot(&s).deviations(base).is_empty() {
                        clean += 1;
                        if clean >= 3 {
                            let el = start.elapsed();
                            return if el <= grace + Duration::from_millis(300) { Settle::Clean(s, el.as_millis() as u64) } else { Settle::Late(s, el.as_millis() as u64) };
                        }
                    } else {
                        clean = 0;
                        if foot(&s).sessions_gone(base) && foot(&s) == foot(&last) {
                            gone_same += 1;
                            if gone_same >= 4 && start.elapsed() > Duration::from_millis(400) {
                                return Settle::Dirty(s);
                            }
                        } else {
                            gone_same = 0;
                        }
                    }
                    last = s;
                }
                None => {
                    if !self.w.is_running() {
                        return Settle::WorkerGone;
                    }
                }
            }
            if start.elapsed() > hard {
                if let Some(extra) = std::env::var("VH_C16_LINGER").ok().and_then(|v| v.parse::<u64>().ok()) {
                    // debugging aid: how long does the dirty footprint survive?
                    let t = Instant::now();
                    while t.elapsed() < Duration::from_secs(extra) {
                        if let Some(s) = self.fresh_snapshot() {
                            if foot(&s).deviations(base).is_empty() {
                                eprintln!("dirty footprint healed after {} ms", start.elapsed().as_millis());
                                break;
                            }
                        }
                        std::thread::sleep(Duration::from_millis(100));
                    }
                    eprintln!("lingered {} ms: {:?}", start.elapsed().as_millis(), foot(&self.w.probe.snapshot()));
                }
                return Settle::Dirty(last);
            }
            std::thread::sleep(Duration::from_millis(if start.elapsed() < Duration::from_millis(300) { 2 } else { 15 }));
        }
    }

    pub fn query_metrics(&mut self) -> Option<WorkerMetrics> {
        let r = self
            .w
            .call(
                RequestType::QueryMetrics(QueryMetricsOptions {
                    list: false,
                    cluster_ids: vec![],
                    backend_ids: vec![],
                    metric_names: vec![],
                    no_clusters: false,
                    workers: false,
                }),
                Duration::from_secs(3),
            )
            .ok()?;
        match r.content {
            Some(ResponseContent { content_type: Some(ContentType::WorkerMetrics(m)) }) => Some(m),
            _ => None,
        }
    }

    /// new gauge underflows since the last call: (key, count)
    pub fn new_underflows(&mut self) -> Vec<(String, u64)> {
        let mut v = Vec::new();
        for (k, n) in self.w.probe.counters() {
            if let Some(key) = k.strip_prefix("gauge_underflow.") {
                let seen = self.underflow_seen.get(key).copied().unwrap_or(0);
                if n > seen {
                    v.push((key.to_owned(), n - seen));
                    self.underflow_seen.insert(key.to_owned(), n);
                }
            }
        }
        v
    }

    /// end of a mix on the harness side: backends drop what they still hold
    pub fn close_backend_side(&mut self) -> bool {
        self.ctl.next_epoch();
        self.ctl.wait_idle(Duration::from_secs(3))
    }

    pub fn stop(mut self) -> Vec<crate::common::PanicRec> {
        self.ctl.next_epoch();
        for b in self.backends.iter_mut() {
            b.stop();
        }
        let p = self.w.stop();
        self.ctl.wait_idle(Duration::from_secs(2));
        p
    }
}

pub fn gauge(m: &BTreeMap<String, sozu_command_lib::proto::command::FilteredMetrics>, key: &str) -> Option<u64> {
    match m.get(key)?.inner.as_ref()? {
        Inner::Gauge(v) => Some(*v),
        _ => None,
    }
}

pub fn count(m: &BTreeMap<String, sozu_command_lib::proto::command::FilteredMetrics>, key: &str) -> Option<i64> {
    match m.get(key)?.inner.as_ref()? {
        Inner::Count(v) => Some(*v),
        _ => None,
    }
}

/// The operator's view against the hook at a quiescent point. Gauges that were never emitted are
/// absent (exempt). Returns (gauge, hook value, metric value) for each disagreement.
fn compare_metrics(m: &WorkerMetrics, s: &LoopSnapshot, base: &Foot, rep: &mut Report) -> Vec<(String, u64, u64)> {
    let mut bad = Vec::new();
    let f = foot(s);
    // a counter that an earlier mix of this cell already left off its idle value was reported then
    let drifted = base.backend_active_connections != 0;
    let pairs: [(&str, u64); 5] = [
        ("client.connections", f.nb_connections as u64),
        ("slab.entries", f.slab_len as u64),
        ("buffer.in_use", f.pool_used as u64),
        ("accept_queue.connections", f.accept_queue_len as u64),
        ("backend.connections", f.backend_active_connections as u64),
    ];
    for (key, hook) in pairs {
        if (key == "backend.connections" && drifted) || (key == "client.connections" && base.nb_connections != 0) {
            rep.obs("metrics_compare_skipped_after_earlier_leak", 1);
            continue;
        }
        match gauge(&m.proxy, key) {
            Some(v) => {
                rep.obs("metrics_gauges_compared", 1);
                if v != hook {
                    bad.push((key.to_owned(), hook, v));
                }
            }
            None => rep.obs("metrics_gauge_absent_exempt", 1),
        }
    }
    for (cid, cm) in &m.clusters {
        if drifted {
            break;
        }
        let hook: u64 = s.backends.iter().filter(|b| &b.cluster_id == cid).map(|b| b.active_connections as u64).sum();
        let mut total = gauge(&cm.cluster, "connections_per_backend");
        for b in &cm.backends {
            if let Some(v) = gauge(&b.metrics, "connections_per_backend") {
                total = Some(total.unwrap_or(0) + v);
            }
        }
        if let Some(v) = total {
            rep.obs("metrics_gauges_compared", 1);
            if v != hook {
                bad.push(("connections_per_backend".to_owned(), hook, v));
            }
        }
    }
    // lifecycle gauges outside the statement: reported, not judged
    for key in ["http.active_requests", "websocket.active_requests", "protocol.http", "protocol.https", "protocol.tls.handshake", "protocol.tcp", "protocol.ws", "protocol.wss", "backend.pool.size"] {
        if let Some(v) = gauge(&m.proxy, key) {
            if v != 0 {
                rep.obs(&format!("unjudged_gauge_nonzero_at_quiescence:{key}"), 1);
                rep.obs_max(&format!("unjudged_gauge_value:{key}"), v);
            }
        }
    }
    bad
}

// ---- mixes ------------------------------------------------------------------------------------

#[derive(Clone, Debug)]
pub struct MixPlan {
    pub parts: Vec<(Class, bool)>,
    pub sessions: usize,
    pub par: usize,
}

impl MixPlan {
    fn class_name(&self) -> String {
        if self.parts.len() == 1 { self.parts[0].0.name(self.parts[0].1) } else { "mixed".to_owned() }
    }
    fn json(&self) -> Value {
        json!({"classes": self.parts.iter().map(|(c, t)| c.name(*t)).collect::<Vec<_>>(), "sessions": self.sessions, "parallel": self.par})
    }
    fn has_timeout(&self) -> bool {
        self.parts.iter().any(|(c, _)| c.is_timeout())
    }
}

fn gen_plan(rng: &mut Rng, only: Option<&str>, quick: bool) -> MixPlan {
    let pick_part = |rng: &mut Rng| {
        let c = *rng.pick(ALL_CLASSES);
        (c, c.tls_capable() && rng.chance(1, 3))
    };
    let mut parts = Vec::new();
    if let Some(name) = only {
        for c in ALL_CLASSES {
            for t in [false, true] {
                if c.name(t) == name && (!t || c.tls_capable()) {
                    parts.push((*c, t));
                }
            }
        }
    }
    if parts.is_empty() {
        if rng.chance(1, 8) {
            for _ in 0..rng.urange(3, 5) {
                parts.push(pick_part(rng));
            }
        } else {
            parts.push(pick_part(rng));
        }
    }
    let timeout = parts.iter().any(|(c, _)| c.is_timeout());
    let slow = parts.iter().any(|(c, _)| matches!(c, Class::H2Goaway | Class::TcpRefused | Class::BackendStallAbort | Class::H1AbortMidResponse | Class::BackendCloseMid | Class::BackendRstMid));
    let (sessions, par) = if timeout {
        let n = rng.urange(6, 14);
        (n, n)
    } else if slow {
        {
            let n = rng.urange(12, 28);
            (n, n)
        }
    } else {
        (rng.urange(30, if quick { 90 } else { 160 }), rng.urange(4, 12))
    };
    MixPlan { parts, sessions, par }
}

pub struct MixStats {
    pub tags: BTreeMap<(String, &'static str), u64>,
    pub kept: Vec<Conn>,
    pub reclaim_max_ms: u64,
    pub reclaim_missed: Vec<(String, &'static str)>,
    pub wall_ms: u64,
}

fn run_mix(env: &Arc<Env>, plan: &MixPlan, seed: u64, mix_id: u64) -> MixStats {
    let next = AtomicUsize::new(0);
    let acc = Mutex::new(MixStats { tags: BTreeMap::new(), kept: Vec::new(), reclaim_max_ms: 0, reclaim_missed: Vec::new(), wall_ms: 0 });
    let start = Instant::now();
    std::thread::scope(|sc| {
        for _ in 0..plan.par.max(1) {
            sc.spawn(|| {
                loop {
                    let i = next.fetch_add(1, Ordering::SeqCst);
                    if i >= plan.sessions {
                        break;
                    }
                    let mut rng = Rng::for_case(seed, S_SESSION ^ mix_id.wrapping_mul(0x9E37), i as u64);
                    let (class, tls_on) = plan.parts[rng.usize_below(plan.parts.len())];
                    let t_s = Instant::now();
                    let o = client::run_session(env, class, tls_on, &mut rng);
                    if std::env::var_os("VH_C16_TRACE").is_some() {
                        eprintln!("session {i} {} -> {} in {} ms", class.name(tls_on), o.tag, t_s.elapsed().as_millis());
                    }
                    let mut a = acc.lock().unwrap();
                    *a.tags.entry((class.name(tls_on), o.tag)).or_insert(0) += 1;
                    if let Some(ms) = o.reclaim_ms {
                        a.reclaim_max_ms = a.reclaim_max_ms.max(ms);
                        if matches!(o.tag, "no_response_in_time" | "answered_but_not_closed_in_time") {
                            a.reclaim_missed.push((class.name(tls_on), o.tag));
                        }
                    }
                    if let Some(c) = o.keep {
                        a.kept.push(c);
                    }
                }
            });
        }
    });
    let mut s = acc.into_inner().unwrap();
    s.wall_ms = start.elapsed().as_millis() as u64;
    s
}

pub struct CaseCtx<'a> {
    pub ctx: &'a Ctx,
    pub case: u64,
    pub isolated: bool,
    pub candidates: Vec<Candidate>,
    /// mix / storm index that produced each candidate
    pub cand_units: Vec<u64>,
    /// isolated re-run: only these mixes / storms
    pub only_units: Option<Vec<u64>>,
}

impl CaseCtx<'_> {
    pub fn skip_unit(&self, unit: u64) -> bool {
        self.only_units.as_ref().is_some_and(|u| !u.contains(&unit))
    }
    /// attribute the candidates pushed since the last call to `unit`
    pub fn close_unit(&mut self, unit: u64) {
        while self.cand_units.len() < self.candidates.len() {
            self.cand_units.push(unit);
        }
    }

    pub fn witness(&self, cell: &Cell, extra: Value) -> Value {
        json!({"case": self.case, "seed": self.ctx.seed, "cell": cell.cfg.json(), "cell_ip": cell.ip.to_string(),
            "isolated_rerun": self.isolated, "detail": extra})
    }
}

/// Oracle A on one finished mix (all client sockets already closed). Returns false when the cell
/// must not be reused (violation, or worker gone).
pub fn check_conservation(cc: &mut CaseCtx, cell: &mut Cell, base: &Foot, class: &str, detail: Value, rep: &mut Report) -> (bool, bool) {
    if !cell.close_backend_side() {
        rep.obs("backend_handlers_still_running_after_mix", 1);
    }
    let grace = Duration::from_millis(cell.cfg.timeout_sum_ms() + 2500);
    rep.obs("conservation_checks", 1);
    let mut reusable = true;
    let mut violated = false;
    match cell.settle(base, grace) {
        Settle::Clean(s, ms) => {
            rep.obs("conservation_clean", 1);
            rep.obs_max("settle_ms", ms);
            // operator view
            if let Some(m) = cell.query_metrics() {
                if let Some(s2) = cell.fresh_snapshot() {
                    if foot(&s2) == foot(&s) {
                        rep.obs("metrics_comparisons", 1);
                        for (g, hook, metric) in compare_metrics(&m, &s2, base, rep) {
                            rep.violation(
                                &format!("resources/metrics_mismatch/{g}/{class}"),
                                &format!("at quiescence QueryMetrics reports {g}={metric} while the worker's bookkeeping says {hook}"),
                                cc.witness(cell, json!({"mix": detail, "gauge": g, "hook": hook, "metric": metric, "footprint": foot(&s2).json()})),
                            );
                            violated = true;
                        }
                    } else {
                        rep.obs("metrics_compare_skipped_unstable", 1);
                    }
                }
            } else {
                rep.obs("metrics_query_failed", 1);
            }
        }
        Settle::Late(_, ms) => {
            rep.obs("conservation_late", 1);
            cc.candidates.push(Candidate {
                signature: format!("resources/late_reclaim/{class}"),
                what: format!("footprint returned to baseline only after {ms} ms, past every timeout + slack ({} ms), with all peers gone", grace.as_millis()),
                witness: cc.witness(cell, json!({"mix": detail, "settle_ms": ms, "grace_ms": grace.as_millis() as u64})),
            });
        }
        Settle::Dirty(s) => {
            let f = foot(&s);
            if !f.sessions_gone(base) {
                reusable = false;
            }
            violated = true;
            for (field, exp, obs) in f.deviations(base) {
                // below the value before the mix: something was released that this mix never took
                // (only visible when an earlier leak left the counter above its floor of 0)
                // one stable signature for the connection count an h2c backend keeps when the buffer
                // pool is exhausted while its client connection is being set up (whatever class ran)
                let only_h2c = field == "backend_active_connections"
                    && cell.cfg.max_buffers < 100
                    && s.backends.iter().all(|b| b.cluster_id == "h2c" || b.active_connections == 0);
                let signature = if obs > exp && only_h2c {
                    "resources/leak/backend_active_connections/h2c_backend_pool_exhausted".to_owned()
                } else if obs > exp {
                    format!("resources/leak/{field}/{class}")
                } else {
                    format!("resources/over_release/{field}")
                };
                rep.violation(
                    &signature,
                    &format!("{field} = {obs} (value before the mix: {exp}) after every peer socket was closed and no session is left that a timeout could still end, or every timeout + 7.5 s elapsed"),
                    cc.witness(cell, json!({"mix": detail, "class": class, "field": field, "expected": exp, "observed": obs,
                        "baseline": base.json(), "footprint": f.json(), "waited_ms_at_most": (grace + Duration::from_secs(5)).as_millis() as u64,
                        "backends": s.backends.iter().map(|b| json!({"cluster": b.cluster_id, "backend": b.backend_id,
                            "active_connections": b.active_connections, "active_requests": b.active_requests})).collect::<Vec<_>>()})),
                );
            }
        }
        Settle::WorkerGone => {
            rep.obs("worker_gone_during_settle", 1);
            reusable = false;
        }
    }
    for (key, n) in cell.new_underflows() {
        rep.violation(
            &format!("resources/gauge_underflow/{key}{}", if cell.cfg.max_buffers < 100 { "/pool_exhausted" } else { "" }),
            &format!("gauge {key} was decremented below zero {n} time(s) (clamped by the local drain)"),
            cc.witness(cell, json!({"mix": detail, "class": class, "gauge": key, "underflows": n})),
        );
        violated = true;
    }
    (reusable, violated)
}

/// (E) and the sozu-side I/O evidence, at the end of every cell
pub fn finish_cell(cc: &mut CaseCtx, cell: Cell, rep: &mut Report) {
    let counters = cell.w.probe.counters();
    let mut wb = 0;
    let mut partial = 0;
    for (k, v) in &counters {
        if k.starts_with("io.") && k.ends_with(".wouldblock") {
            wb += v;
        }
        if k.starts_with("io.") && k.ends_with(".partial") {
            partial += v;
        }
        if k.starts_with("io.") && k.ends_with("write.wouldblock") || k.ends_with("writev.wouldblock") {
            rep.obs("sozu_write_wouldblock", *v);
        }
    }
    rep.obs("sozu_wouldblock", wb);
    rep.obs("sozu_partial_io", partial);
    rep.obs("backend_handlers_forced_exit", cell.ctl.forced_exits.load(Ordering::SeqCst));
    rep.obs("backend_requests_seen", cell.ctl.requests.load(Ordering::SeqCst));
    let over = cell.w.probe.over_limit_iterations.load(Ordering::SeqCst);
    let maxnb = cell.w.probe.max_nb_connections.load(Ordering::SeqCst);
    let cfgj = cell.cfg.json();
    let maxc = cell.cfg.max_connections;
    let running = cell.w.is_running();
    let panics = cell.stop();
    rep.obs("cells_finished", 1);
    if over > 0 || maxnb > maxc {
        rep.violation(
            "admission/nb_connections_over_max",
            &format!("nb_connections exceeded max_connections={maxc}: running max {maxnb}, {over} iteration(s) over the limit"),
            json!({"case": cc.case, "seed": cc.ctx.seed, "cell": cfgj, "max_nb_connections": maxnb, "over_limit_iterations": over}),
        );
    }
    for p in &panics {
        if p.in_sozu() {
            rep.violation(
                &p.signature(),
                &format!("worker thread panicked: {} at {}", p.message, p.location),
                json!({"case": cc.case, "seed": cc.ctx.seed, "cell": cfgj, "panic": p.message, "location": p.location}),
            );
        } else {
            rep.broken(&format!("harness-side panic in worker thread: {} at {}", p.message, p.location));
        }
    }
    if !running && panics.is_empty() {
        rep.inconclusive("worker_thread_ended_without_recorded_panic");
    }
}

/// signatures listed with status "known" for this property in known_findings.json
fn known_signatures(ctx: &Ctx) -> std::collections::BTreeSet<String> {
    let mut out = std::collections::BTreeSet::new();
    let text = std::fs::read_to_string(ctx.root.join("known_findings.json")).unwrap_or_default();
    if let Ok(v) = serde_json::from_str::<Value>(&text) {
        for f in v["findings"].as_array().cloned().unwrap_or_default() {
            if f["property"].as_str() == Some(ctx.prop.as_str()) && f["status"].as_str() == Some("known") {
                if let Some(s) = f["signature"].as_str() {
                    out.insert(s.to_owned());
                }
            }
        }
    }
    out
}

fn conservation_cfg(rng: &mut Rng) -> CellCfg {
    CellCfg {
        kind: "conservation",
        max_connections: 1000,
        max_buffers: if rng.chance(1, 4) { rng.range(6, 24) } else { 1000 },
        front_timeout: rng.range(1, 2) as u32,
        back_timeout: rng.range(1, 2) as u32,
        request_timeout: rng.range(1, 2) as u32,
        connect_timeout: 1,
        accept_queue_timeout: 5,
        evict: false,
        per_ip: 0,
        cluster_a_per_ip: None,
        tcp_per_ip: None,
        front_sndbuf: if rng.chance(1, 3) { Some(4096) } else { None },
    }
}

/// run one mix + oracles A and D on `cell`; returns false when the cell must be abandoned
fn one_mix(cc: &mut CaseCtx, cell: &mut Cell, plan: &MixPlan, mix_id: u64, rep: &mut Report) -> (bool, bool) {
    let _gate = if cc.isolated { None } else { Some(GATE.read().unwrap_or_else(|e| e.into_inner())) };
    let Some(base) = cell.baseline() else {
        if cell.w.is_running() {
            rep.inconclusive("no_stable_baseline");
        }
        return (false, false);
    };
    let class = plan.class_name();
    let detail = json!({"mix": mix_id, "plan": plan.json()});
    let mix_start = Instant::now();
    let mut stats = run_mix(&cell.env, plan, cc.ctx.seed, cc.case * 1000 + mix_id);
    rep.obs("mixes", 1);
    rep.obs_max("mix_wall_ms", stats.wall_ms);
    if stats.wall_ms > 6000 {
        rep.obs_max(&format!("slow_mix_wall_ms:{class}"), stats.wall_ms);
    }
    let mut sessions = 0;
    for ((cl, tag), n) in &stats.tags {
        let base = cl.strip_prefix("tls_").unwrap_or(cl);
        if matches!(base, "backend_close_before_response" | "backend_close_mid_response" | "backend_rst_before_response" | "backend_rst_mid_response") && tag.starts_with("status_5") | tag.starts_with("status_200_truncated") | tag.ends_with("_no_response") {
            rep.obs("backend_killed_with_requests_in_flight:h1_backend", *n);
        }
        if *tag == "h2c_backend_killed_in_flight" {
            rep.obs("backend_killed_with_requests_in_flight:h2c_backend", *n);
        }
        if *tag == "h2_front_backends_killed_in_flight" {
            rep.obs("backend_killed_with_requests_in_flight:h2_frontend", *n);
        }
        if cl.starts_with("h2_") {
            rep.obs("h2_sessions", *n);
        }
        rep.obs(&format!("sessions:{cl}"), *n);
        rep.obs(&format!("result:{tag}"), *n);
        sessions += n;
    }
    rep.obs("sessions_total", sessions);
    let fp = format!("{}|{:?}", class, stats.tags.keys().map(|(c, t)| format!("{c}:{t}")).collect::<Vec<_>>());
    rep.case_bytes(fp.as_bytes(), sessions > 0);
    if rep.samples.len() < 2 && sessions > 0 {
        rep.sample(serde_json::json!({"kind": "conservation mix", "class": class, "sessions": sessions, "wall_ms": stats.wall_ms,
            "outcomes": stats.tags.iter().map(|((c, t), n)| format!("{c}:{t}x{n}")).collect::<Vec<_>>()}));
    }

    // Oracle D: sessions the clients left idle / stuck (client sockets still open)
    if plan.has_timeout() {
        rep.obs("reclaim_checks", 1);
        rep.obs_max("reclaim_ms_at_client", stats.reclaim_max_ms);
        // the clients waited (up to the bound) for sozu to answer / close; the worker's own
        // bookkeeping gets the same bound, counted from the start of the mix
        let hook_deadline = (mix_start + Duration::from_millis(cell.env.reclaim_bound_ms)).max(Instant::now() + Duration::from_millis(500));
        let mut gone = false;
        while Instant::now() < hook_deadline {
            match cell.fresh_snapshot() {
                Some(s) if s.nb_connections == base.nb_connections => {
                    gone = true;
                    break;
                }
                Some(_) => std::thread::sleep(Duration::from_millis(20)),
                None => break,
            }
        }
        rep.obs_max("reclaim_ms_by_hook", mix_start.elapsed().as_millis() as u64);
        if gone && stats.reclaim_missed.is_empty() {
            rep.obs("reclaim_in_time", 1);
        } else if cell.w.is_running() {
            let nb = cell.w.probe.snapshot().nb_connections;
            cc.candidates.push(Candidate {
                signature: format!("resources/not_reclaimed/{class}"),
                what: format!(
                    "{} idle/stuck session(s) still alive after {} ms (sum of front/back/request/connect/h2-stream-idle timeouts + 2.5 s slack); nb_connections={nb}",
                    stats.reclaim_missed.len().max(nb),
                    cell.env.reclaim_bound_ms
                ),
                witness: cc.witness(cell, json!({"mix": detail, "missed_at_client": stats.reclaim_missed.iter().map(|(c, t)| format!("{c}:{t}")).collect::<Vec<_>>(),
                    "nb_connections_with_clients_still_connected": nb, "bound_ms": cell.env.reclaim_bound_ms})),
            });
        }
    }
    // close every harness socket
    stats.kept.clear();
    check_conservation(cc, cell, &base, &class, detail, rep)
}

fn conservation_cell(cc: &mut CaseCtx, rep: &mut Report) {
    let mut rng = Rng::for_case(cc.ctx.seed, S_CELL, cc.case);
    let cfg = conservation_cfg(&mut rng);
    let mut cell = match Cell::start(cfg) {
        Ok(c) => c,
        Err(e) => {
            rep.inconclusive(&format!("cell_start_failed: {e}"));
            return;
        }
    };
    let quick = cc.ctx.tier == crate::common::Tier::Quick;
    let mixes = cc.ctx.opt_u64("mixes", 6);
    let only = cc.ctx.opt("class").map(|s| s.to_owned());
    for m in 0..mixes {
        if time_up(cc.ctx) && !cc.isolated {
            break;
        }
        if cc.skip_unit(m) {
            continue;
        }
        let mut mrng = Rng::for_case(cc.ctx.seed, S_MIX, cc.case * 1000 + m);
        let plan = gen_plan(&mut mrng, only.as_deref(), quick);
        let blended = plan.parts.len() > 1;
        let mut scratch = rep.fork();
        let (ok, violated) = one_mix(cc, &mut cell, &plan, m, if blended { &mut scratch } else { &mut *rep });
        cc.close_unit(m);
        if blended {
            let held_back = std::mem::take(&mut scratch.violations);
            scratch.observed.retain(|k, _| !k.starts_with("violation:"));
            rep.merge(scratch);
            if violated && !cc.isolated {
                // attribute a blended mix: run each of its classes alone on a fresh worker; the
                // blend itself is only reported when no single class reproduces a violation
                rep.obs("blended_mix_bisections", 1);
                finish_cell(cc, cell, rep);
                let mut attributed = false;
                let mut parts = plan.parts.clone();
                parts.sort();
                parts.dedup();
                for (k, part) in parts.iter().enumerate() {
                    let single = MixPlan { parts: vec![*part], sessions: plan.sessions, par: plan.par };
                    if let Ok(mut c2) = Cell::start(conservation_cfg(&mut Rng::for_case(cc.ctx.seed, S_CELL, cc.case))) {
                        attributed |= one_mix(cc, &mut c2, &single, m * 10 + k as u64 + 100, rep).1;
                        finish_cell(cc, c2, rep);
                    }
                }
                if attributed {
                    rep.obs("blended_mix_violations_attributed_to_a_class", 1);
                } else {
                    // not reproduced by any single class (an intermittent defect): when one of the
                    // blended classes carries a *known* finding for the same field, the violation
                    // is reported under that signature (still printed, as KNOWN-FINDING) instead
                    // of the uninformative `/mixed`
                    let known = known_signatures(cc.ctx);
                    for v in held_back {
                        let mut sig = v.signature.clone();
                        if let Some(prefix) = v.signature.strip_suffix("/mixed") {
                            if let Some(hit) = parts.iter().map(|(c, t)| format!("{prefix}/{}", c.name(*t))).find(|s| known.contains(s)) {
                                rep.obs("blended_mix_violations_attributed_by_known_finding", 1);
                                sig = hit;
                            }
                        }
                        rep.violation(&sig, &v.what, v.witness);
                    }
                }
                return;
            }
            for v in held_back {
                rep.violation(&v.signature, &v.what, v.witness);
            }
        }
        if !ok || !cc.candidates.is_empty() {
            break;
        }
    }
    finish_cell(cc, cell, rep);
}

/// stop starting new mixes / storms at 70 % of the budget (what runs then still has to settle)
pub fn time_up(ctx: &Ctx) -> bool {
    ctx.started.elapsed() > ctx.budget.mul_f32(0.7)
}

fn kind_of(case: u64, ctx: &Ctx) -> &'static str {
    match ctx.opt("kind") {
        Some("conservation") => "conservation",
        Some("admission") => "admission",
        Some("perip") => "perip",
        Some("timer") => "timer",
        _ => match case % 16 {
            0..=7 => "conservation",
            8 => "timer",
            9..=12 => "admission",
            _ => "perip",
        },
    }
}

fn run_case_once(ctx: &Ctx, case: u64, only_units: Option<Vec<u64>>, rep: &mut Report) -> (Vec<Candidate>, Vec<u64>) {
    let mut cc = CaseCtx { ctx, case, isolated: only_units.is_some(), candidates: Vec::new(), cand_units: Vec::new(), only_units };
    match kind_of(case, ctx) {
        "conservation" => conservation_cell(&mut cc, rep),
        "admission" => admission::cell(&mut cc, rep),
        "timer" => timerlab::cell(&mut cc, rep),
        _ => perip::cell(&mut cc, rep),
    }
    cc.close_unit(0);
    (cc.candidates, cc.cand_units)
}

fn run_case(ctx: &Ctx, case: u64, rep: &mut Report) {
    if time_up(ctx) && ctx.replay.is_none() {
        rep.obs("cases_skipped_budget", 1);
        return;
    }
    let (candidates, units) = run_case_once(ctx, case, None, rep);
    if candidates.is_empty() {
        return;
    }
    rep.obs("bounded_time_candidates", candidates.len() as u64);
    // bounded-time verdicts: once more, alone (only the mixes / storms concerned). Isolation stops
    // every other cell, so it is rationed: a signature that was already confirmed in this run is
    // not re-confirmed, and at most RERUN_CAP isolated re-runs are made per run.
    let mut todo = Vec::new();
    let mut todo_units = Vec::new();
    {
        let mut st = RERUNS.lock().unwrap_or_else(|e| e.into_inner());
        for (c, u) in candidates.into_iter().zip(units) {
            if st.confirmed.contains(&c.signature) {
                rep.obs("bounded_time_candidates_of_already_confirmed_signature", 1);
                continue;
            }
            if todo.iter().any(|t: &Candidate| t.signature == c.signature) {
                continue;
            }
            todo_units.push(u);
            todo.push(c);
        }
        if todo.is_empty() {
            return;
        }
        let cap = ctx.tier.pick(4, 40);
        if st.runs >= cap || (time_up(ctx) && ctx.replay.is_none() && st.runs > 0) {
            for c in todo {
                rep.inconclusive(&format!("bounded_time_miss_not_rerun_isolation_budget_spent:{}", c.signature));
            }
            return;
        }
        st.runs += 1;
    }
    let _w = GATE.write().unwrap_or_else(|e| e.into_inner());
    rep.obs("isolated_reruns", 1);
    let mut scratch = rep.fork();
    todo_units.sort_unstable();
    todo_units.dedup();
    let (again, _) = run_case_once(ctx, case, Some(todo_units), &mut scratch);
    for v in scratch.violations {
        // exact (not time-bounded) violations seen only by the isolated re-run still count
        rep.violation(&v.signature, &v.what, v.witness);
    }
    for c in todo {
        if let Some(r) = again.iter().find(|a| a.signature == c.signature) {
            RERUNS.lock().unwrap_or_else(|e| e.into_inner()).confirmed.insert(c.signature.clone());
            rep.violation(&c.signature, &c.what, json!({"case": case, "seed": ctx.seed, "first_run": c.witness, "isolated_rerun": r.witness}));
        } else {
            rep.inconclusive(&format!("bounded_time_miss_not_reproduced_in_isolation:{}", c.signature));
        }
    }
}

#[derive(Default)]
struct Reruns {
    runs: u64,
    confirmed: std::collections::BTreeSet<String>,
}

static RERUNS: std::sync::LazyLock<Mutex<Reruns>> = std::sync::LazyLock::new(|| Mutex::new(Reruns::default()));

pub fn run(ctx: &Ctx) -> Report {
    lab::raise_fd_limit();
    let mut rep = Report::new(
        "exploration",
        "case n = one worker cell generated from (seed, n): conservation cell (6 mixes of 6-160 scripted sessions, one outcome class per mix or a blend of 3-5), \
         admission cell (storms of 2-5x max_connections parked clients) or per-IP cell (scripted limit scenarios); an evaluation is one mix / storm / scenario; \
         distinct = distinct (outcome class, observed result set) shapes",
    );
    rep.assume("a session the client has left is allowed to linger until the sum of its configured timeouts + 2.5 s; only then is a non-idle footprint suspicious, and it is reported as a leak only if it persists 5 s longer (or at once when no session object is left that a timer could still end)");
    rep.assume("after SetMaxConnectionsPerIp(0) followed by a re-enable, connections admitted while the limit was off are not required to count (docs are silent): exempt");
    for k in [
        "sessions_total",
        "mixes",
        "conservation_checks",
        "conservation_clean",
        "metrics_comparisons",
        "reclaim_checks",
        "reclaim_in_time",
        "storms",
        "storms_saturated",
        "storm_excess_refused_or_queued",
        "accept_resume_probes_served",
        "per_ip_scenarios",
        "per_ip_rejections_429",
        "per_ip_tcp_rejections",
        "per_ip_keepalive_single_slot_checks",
        "result:status_200",
        "result:status_408",
        "result:status_504",
        "result:status_503",
        "result:ws_upgraded",
        "result:tcp_relayed",
        "result:tls_handshake_failed",
        "result:h2_streams_completed",
        "result:backend_idle_closed_then_client_left",
        "result:backend_idle_closed_then_reused",
        "timer_schedules",
        "timer_drains",
        "timer_multi_revolution_pending_at_drain",
        "timer_wakeup_checks",
        "timer_reset_bursts",
        "backend_killed_with_requests_in_flight:h1_backend",
        "backend_killed_with_requests_in_flight:h2c_backend",
        "backend_killed_with_requests_in_flight:h2_frontend",
        "per_ip_mixed_cluster_disable_checks",
        "result:h2_rst_stream_then_completed",
        "result:h2_dropped_with_open_streams",
        "per_ip_h2_single_slot_checks",
        "sozu_wouldblock",
        "cells_finished",
    ] {
        rep.require(k);
    }
    if let Some(path) = &ctx.replay {
        let v: Value = serde_json::from_str(&std::fs::read_to_string(path).unwrap_or_default()).unwrap_or(Value::Null);
        let seed = v["seed"].as_u64().unwrap_or(ctx.seed);
        let mut c2 = ctx.clone();
        c2.seed = seed;
        let mut cases: Vec<u64> = Vec::new();
        for w in v["witnesses"].as_array().cloned().unwrap_or_default() {
            for c in [&w["case"], &w["first_run"]["case"]] {
                if let Some(n) = c.as_u64() {
                    if !cases.contains(&n) {
                        cases.push(n);
                    }
                }
            }
        }
        rep.required.clear();
        for c in cases {
            run_case(&c2, c, &mut rep);
        }
        return rep;
    }
    let n = ctx.opt_u64("cases", ctx.tier.pick(128, 2560));
    let first = ctx.opt_u64("first", 0);
    par_cases(ctx, &mut rep, n, |i, r| run_case(ctx, first + i, r));
    rep
}
