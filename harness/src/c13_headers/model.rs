//! C13 data model: cell settings, request/response specifications, backend records.

use std::net::{IpAddr, Ipv4Addr, SocketAddr};

use serde_json::{Value, json};

pub type Fields = Vec<(String, Vec<u8>)>;

#[derive(Clone, Copy, Debug, PartialEq, Eq, Hash)]
pub enum Front {
    H1Tcp,
    H1Tls,
    H2Tls,
}

impl Front {
    pub const ALL: [Front; 3] = [Front::H1Tcp, Front::H1Tls, Front::H2Tls];
    pub fn name(self) -> &'static str {
        match self {
            Front::H1Tcp => "h1tcp",
            Front::H1Tls => "h1tls",
            Front::H2Tls => "h2tls",
        }
    }
    /// protocol family used in signatures
    pub fn short(self) -> &'static str {
        match self {
            Front::H2Tls => "h2",
            _ => "h1",
        }
    }
    pub fn is_tls(self) -> bool {
        self != Front::H1Tcp
    }
    pub fn is_h2(self) -> bool {
        self == Front::H2Tls
    }
}

#[derive(Clone, Copy, Debug, PartialEq, Eq, Hash)]
pub enum Back {
    H1,
    H2,
}

impl Back {
    pub fn short(self) -> &'static str {
        match self {
            Back::H1 => "h1",
            Back::H2 => "h2",
        }
    }
}

#[derive(Clone, Copy, Debug, PartialEq, Eq, Hash)]
pub enum Variant {
    Plain,
    Edit,
    Rw,
    Hsts,
}

impl Variant {
    pub const ALL: [Variant; 4] = [Variant::Plain, Variant::Edit, Variant::Rw, Variant::Hsts];
    pub fn name(self) -> &'static str {
        match self {
            Variant::Plain => "plain",
            Variant::Edit => "edit",
            Variant::Rw => "rw",
            Variant::Hsts => "hsts",
        }
    }
}

#[derive(Clone, Copy, Debug)]
pub struct ClusterDef {
    pub id: &'static str,
    pub back: Back,
    pub sticky: bool,
}

pub const CLUSTERS: [ClusterDef; 4] = [
    ClusterDef { id: "c0", back: Back::H1, sticky: false },
    ClusterDef { id: "c1", back: Back::H1, sticky: true },
    ClusterDef { id: "c2", back: Back::H2, sticky: false },
    ClusterDef { id: "c3", back: Back::H2, sticky: true },
];

pub fn hostname(v: Variant, c: &ClusterDef) -> String {
    format!("{}-{}.test", v.name(), c.id)
}
pub fn rewrite_host(c: &ClusterDef) -> String {
    format!("rewritten-{}.internal", c.id)
}
pub fn rewrite_path(c: &ClusterDef) -> String {
    format!("/rewritten/{}", c.id)
}
pub fn sticky_id(c: &ClusterDef) -> String {
    format!("sticky-{}", c.id)
}

pub const EDIT_ADD: (&str, &str) = ("X-Edit-Add", "added-by-frontend");
pub const EDIT_DEL: &str = "X-Edit-Del";
pub const RESP_ADD: (&str, &str) = ("X-Resp-Add", "resp-added-by-frontend");
pub const RESP_DEL: &str = "X-Resp-Del";

#[derive(Clone, Copy, Debug, PartialEq, Eq)]
pub struct HstsPolicy {
    pub max_age: u32,
    pub include_sub: bool,
    pub preload: bool,
}

pub const FRONTEND_HSTS: HstsPolicy = HstsPolicy { max_age: 123_456, include_sub: true, preload: false };

#[derive(Clone, Debug)]
pub struct CellCfg {
    pub cell: u64,
    pub ip: Ipv4Addr,
    pub elide: bool,
    pub send: bool,
    /// correlation header name in force (default Sozu-Id)
    pub corr_name: String,
    pub corr_custom: bool,
    pub sticky_name: String,
    pub sticky_custom: bool,
    pub listener_hsts: Option<HstsPolicy>,
    /// [::1] ports (http, https) when the IPv6 listeners could be set up
    pub v6_ports: Option<(u16, u16)>,
}

impl CellCfg {
    pub fn describe(&self) -> Value {
        json!({"cell": self.cell, "ip": self.ip.to_string(), "elide_x_real_ip": self.elide, "send_x_real_ip": self.send,
            "sozu_id_header": self.corr_name, "sticky_name": self.sticky_name,
            "listener_hsts": self.listener_hsts.map(|h| format!("{h:?}")), "v6_ports": format!("{:?}", self.v6_ports)})
    }
    /// HSTS policy sozu is documented to apply for this front/variant (None = no header)
    pub fn expected_hsts(&self, front: Front, v: Variant) -> Option<HstsPolicy> {
        if !front.is_tls() {
            return None;
        }
        match v {
            Variant::Hsts => Some(FRONTEND_HSTS),
            Variant::Edit => None, // explicit `enabled = false` on the frontend
            _ => self.listener_hsts,
        }
    }
}

#[derive(Clone, Debug, PartialEq, Eq)]
pub enum PeerMode {
    V4(Ipv4Addr),
    V6,
    /// PROXY protocol v2 on an expect_proxy listener, announcing this source
    Proxy(SocketAddr),
}

impl PeerMode {
    pub fn name(&self) -> &'static str {
        match self {
            PeerMode::V4(_) => "v4",
            PeerMode::V6 => "v6",
            PeerMode::Proxy(a) if a.is_ipv4() => "proxy4",
            PeerMode::Proxy(_) => "proxy6",
        }
    }
}

#[derive(Clone, Debug)]
pub enum Body {
    None,
    Length(Vec<u8>),
    /// H1: chunked; H2: DATA without content-length (+ trailers HEADERS when non-empty)
    Chunked(Vec<u8>, Fields),
}

/// A structural position at which an H1 client cuts its request bytes (the segments are written
/// separately, with a pause, so that sozu sees them in separate reads). The number is a
/// per-mille position inside the named region.
#[derive(Clone, Copy, Debug, PartialEq, Eq)]
pub enum Cut {
    /// inside the head (request line + header lines + empty line)
    InHead(u16),
    /// exactly between the head and the body
    HeadBody,
    /// inside the first chunk-size line (chunked bodies)
    InChunkSize(u16),
    /// inside the body bytes (chunk data / length-delimited data)
    InBody(u16),
    /// inside the region from the last chunk's size line `0 CRLF` to the final CRLF of the trailer section
    InTrailerRegion(u16),
}

impl Cut {
    pub fn name(self) -> &'static str {
        match self {
            Cut::InHead(_) => "in_head",
            Cut::HeadBody => "head_body_boundary",
            Cut::InChunkSize(_) => "in_chunk_size_line",
            Cut::InBody(_) => "in_body",
            Cut::InTrailerRegion(_) => "in_trailer_region",
        }
    }
}

#[derive(Clone, Debug)]
pub struct ReqSpec {
    pub index: u64,
    pub front: Front,
    pub cluster: usize,
    pub variant: Variant,
    pub method: String,
    pub authority: String,
    pub path: String,
    /// all fields except Host / pseudo-headers / framing
    pub headers: Fields,
    pub body: Body,
    /// H1: put the Host line last instead of first
    pub host_last: bool,
    /// H1: where the request bytes are cut into separately written segments
    pub cuts: Vec<Cut>,
    /// feature tags (shape of the case)
    pub tags: Vec<&'static str>,
}

impl ReqSpec {
    pub fn trailers(&self) -> &[(String, Vec<u8>)] {
        match &self.body {
            Body::Chunked(_, t) => t,
            _ => &[],
        }
    }
}

#[derive(Clone, Debug, Default)]
pub struct RespSpec {
    pub status: u16,
    pub headers: Fields,
    pub body_len: usize,
    pub chunked: bool,
    pub trailers: Fields,
    /// H1 backend: per-mille position inside the last-chunk + trailer region at which the response
    /// bytes are cut into two separately written segments
    pub cut_in_trailer_region: Option<u16>,
}

#[derive(Clone, Debug)]
pub struct Record {
    pub serial: u64,
    pub back: Back,
    pub method: String,
    pub target: String,
    /// H1: every field incl. Host; H2: decoded list incl. pseudo-headers
    pub headers: Fields,
    pub trailers: Fields,
    pub body_len: usize,
    pub resp: RespSpec,
}

#[derive(Clone, Debug, Default)]
pub struct ObsResp {
    pub status: u16,
    pub headers: Fields,
    pub trailers: Fields,
    pub body_len: usize,
}

/// what the lane's connection looks like from sozu's side
#[derive(Clone, Debug)]
pub struct PeerTruth {
    pub ip: IpAddr,
    pub port: u16,
    pub listener_port: u16,
    pub mode: &'static str,
}

pub fn show(v: &[u8]) -> String {
    let mut s = String::new();
    let cut = v.len() > 160;
    for &b in v.iter().take(160) {
        if (0x20..0x7f).contains(&b) && b != b'\\' {
            s.push(b as char);
        } else {
            s.push_str(&format!("\\x{b:02x}"));
        }
    }
    if cut {
        s.push_str(&format!("...[{} bytes]", v.len()));
    }
    s
}

pub fn fields_json(f: &[(String, Vec<u8>)]) -> Value {
    Value::Array(f.iter().map(|(n, v)| json!([n, show(v)])).collect())
}

pub fn lc(s: &str) -> String {
    s.to_ascii_lowercase()
}

/// values of the fields called `name` (case-insensitive), in order
pub fn values_of<'a>(f: &'a [(String, Vec<u8>)], name: &str) -> Vec<&'a [u8]> {
    f.iter().filter(|(n, _)| n.eq_ignore_ascii_case(name)).map(|(_, v)| v.as_slice()).collect()
}

pub fn has_name(f: &[(String, Vec<u8>)], name: &str) -> bool {
    f.iter().any(|(n, _)| n.eq_ignore_ascii_case(name))
}

pub const HOP_FIXED: [&str; 5] = ["connection", "keep-alive", "proxy-connection", "transfer-encoding", "upgrade"];

/// lower-cased connection options named in the `Connection` fields of a list
pub fn connection_listed(f: &[(String, Vec<u8>)]) -> Vec<String> {
    let mut out = Vec::new();
    for v in values_of(f, "connection") {
        for t in String::from_utf8_lossy(v).split(',') {
            let t = t.trim().to_ascii_lowercase();
            if !t.is_empty() && !out.contains(&t) {
                out.push(t);
            }
        }
    }
    out
}
