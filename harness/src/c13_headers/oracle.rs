//! C13 oracle: the transformation table f(client list) written from the property statement and
//! doc/configure.md, and the ordered-multiset comparison against what the backend / client saw.

use std::{
    collections::BTreeMap,
    net::{IpAddr, SocketAddr},
};

use serde_json::{Value, json};

use super::model::*;
use crate::common::Report;

/// a value list rendered as JSON, printed raw by both `{}` and `{:?}`
pub struct Sv(String);
impl std::fmt::Debug for Sv {
    fn fmt(&self, f: &mut std::fmt::Formatter<'_>) -> std::fmt::Result {
        f.write_str(&self.0)
    }
}
impl std::fmt::Display for Sv {
    fn fmt(&self, f: &mut std::fmt::Formatter<'_>) -> std::fmt::Result {
        f.write_str(&self.0)
    }
}

pub struct Judge<'a> {
    pub rep: &'a mut Report,
    pub seed: u64,
    pub cfg: &'a CellCfg,
    pub spec: &'a ReqSpec,
    pub truth: &'a PeerTruth,
    pub rec: &'a Record,
    pub obs: &'a ObsResp,
    pub pair: String,
    /// the client got an answer made by sozu itself although the backend answered
    pub own_answer: bool,
    pub violations: u32,
}

const IDENTITY_FIXED: [&str; 6] = ["x-forwarded-for", "forwarded", "x-real-ip", "x-forwarded-proto", "x-forwarded-port", "x-request-id"];

fn group(f: &[(String, Vec<u8>)]) -> BTreeMap<String, Vec<&[u8]>> {
    let mut m: BTreeMap<String, Vec<&[u8]>> = BTreeMap::new();
    for (n, v) in f {
        m.entry(lc(n)).or_default().push(v.as_slice());
    }
    m
}

fn is_subsequence(small: &[&[u8]], big: &[&[u8]]) -> bool {
    let mut it = big.iter();
    small.iter().all(|s| it.any(|b| b == s))
}

fn value_class(vals: &[&[u8]]) -> &'static str {
    if vals.iter().any(|v| v.is_empty()) {
        "/empty_value"
    } else if vals.iter().any(|v| v.iter().any(|b| *b >= 0x80)) {
        "/obs_text"
    } else if vals.iter().any(|v| v.len() > 512) {
        "/long_value"
    } else {
        ""
    }
}

/// list elements of a comma-separated field spread over several field lines
fn list_elements(vals: &[&[u8]]) -> Vec<String> {
    let joined: Vec<u8> = vals.join(&b","[..]);
    String::from_utf8_lossy(&joined).split(',').map(|s| s.trim().to_owned()).collect()
}

/// split on `sep` outside double quotes
fn split_unquoted(s: &str, sep: char) -> Vec<String> {
    let mut out = Vec::new();
    let mut cur = String::new();
    let mut q = false;
    let mut esc = false;
    for c in s.chars() {
        if esc {
            cur.push(c);
            esc = false;
            continue;
        }
        if q && c == '\\' {
            cur.push(c);
            esc = true;
            continue;
        }
        if c == '"' {
            q = !q;
        }
        if c == sep && !q {
            out.push(cur.trim().to_owned());
            cur = String::new();
        } else {
            cur.push(c);
        }
    }
    out.push(cur.trim().to_owned());
    out
}

/// an address as written in X-Forwarded-For / X-Real-IP / Forwarded for= : ip, [ip], ip:port, [ip]:port, quoted
fn parse_node(s: &str) -> Option<(IpAddr, Option<u16>)> {
    let s = s.trim().trim_matches('"');
    if let Ok(ip) = s.parse::<IpAddr>() {
        return Some((ip, None));
    }
    if let Ok(sa) = s.parse::<SocketAddr>() {
        return Some((sa.ip(), Some(sa.port())));
    }
    if let Some(inner) = s.strip_prefix('[').and_then(|r| r.strip_suffix(']')) {
        return inner.parse::<IpAddr>().ok().map(|ip| (ip, None));
    }
    None
}

fn cookie_pairs(vals: &[&[u8]]) -> Vec<String> {
    let mut out = Vec::new();
    for v in vals {
        for p in String::from_utf8_lossy(v).split(';') {
            let p = p.trim_matches(|c| c == ' ' || c == '\t');
            if !p.is_empty() {
                out.push(p.to_owned());
            }
        }
    }
    out
}

fn hsts_directives(v: &[u8]) -> Vec<String> {
    let mut d: Vec<String> = String::from_utf8_lossy(v).split(';').map(|s| s.trim().to_ascii_lowercase()).filter(|s| !s.is_empty()).collect();
    d.sort();
    d
}

fn hsts_expected(p: &HstsPolicy) -> Vec<String> {
    let mut d = vec![format!("max-age={}", p.max_age)];
    if p.include_sub {
        d.push("includesubdomains".into());
    }
    if p.preload {
        d.push("preload".into());
    }
    d.sort();
    d
}

const KNOWN_RESPONSE_NAMES: [&str; 14] = [
    "date", "server", "via", "content-type", "cache-control", "x-forwarded-for", "forwarded", "x-real-ip", "x-request-id", "x-forwarded-proto",
    "x-forwarded-port", "vary", "alt-svc", "x-forwarded-host",
];

impl<'a> Judge<'a> {
    fn witness(&self, detail: Value) -> Value {
        let c = &CLUSTERS[self.spec.cluster];
        json!({
            "case": self.cfg.cell, "seed": self.seed, "request_index": self.spec.index,
            "cell": self.cfg.describe(),
            "front": self.spec.front.name(), "backend": self.rec.back.short(), "cluster": c.id, "sticky_session": c.sticky, "variant": self.spec.variant.name(),
            "peer": {"ip": self.truth.ip.to_string(), "port": self.truth.port, "mode": self.truth.mode, "listener_port": self.truth.listener_port},
            "client_request": {"method": self.spec.method, "authority": self.spec.authority, "path": self.spec.path,
                "headers": fields_json(&self.spec.headers), "trailers": fields_json(self.spec.trailers()),
                "host_last": self.spec.host_last,
                "body": match &self.spec.body { Body::None => "none".to_owned(), Body::Length(b) => format!("content-length {}", b.len()), Body::Chunked(b, _) => format!("chunked/data {}", b.len()) }},
            "backend_received": {"method": self.rec.method, "target": self.rec.target, "headers": fields_json(&self.rec.headers), "trailers": fields_json(&self.rec.trailers)},
            "backend_sent": {"status": self.rec.resp.status, "headers": fields_json(&self.rec.resp.headers), "trailers": fields_json(&self.rec.resp.trailers), "chunked": self.rec.resp.chunked},
            "client_received": {"status": self.obs.status, "headers": fields_json(&self.obs.headers), "trailers": fields_json(&self.obs.trailers)},
            "detail": detail,
        })
    }

    fn violate(&mut self, sig: &str, what: String, detail: Value) {
        self.violations += 1;
        let w = self.witness(detail);
        self.rep.violation(sig, &what, w);
    }

    fn exempt(&mut self, reason: &str, n: u64) {
        self.rep.obs(&format!("exempt/{reason}"), n);
    }

    fn sv(vals: &[&[u8]]) -> Sv {
        Sv(Value::Array(vals.iter().map(|v| Value::String(show(v))).collect()).to_string())
    }

    // ---------------------------------------------------------------------------------------
    // request direction
    // ---------------------------------------------------------------------------------------

    pub fn request(&mut self) {
        let spec = self.spec;
        let rec = self.rec;
        let cfg = self.cfg;
        let pair = self.pair.clone();
        let cdef = &CLUSTERS[spec.cluster];
        let corr = lc(&cfg.corr_name);
        let client = group(&spec.headers);
        let backend = group(&rec.headers);
        let empty: Vec<&[u8]> = Vec::new();
        let listed: Vec<String> = connection_listed(&spec.headers);

        // (d) method, target, authority
        if rec.method != spec.method {
            self.violate(&format!("headers/method_altered/{pair}"), format!("backend saw method {:?}, client sent {:?}", rec.method, spec.method), Value::Null);
        }
        let rw = spec.variant == Variant::Rw;
        if rw {
            self.rep.obs("rewrite_checked", 1);
            let want = rewrite_path(cdef);
            let query = spec.path.split_once('?').map(|(_, q)| q);
            let ok = rec.target == want || query.is_some_and(|q| rec.target == format!("{want}?{q}"));
            if !ok {
                self.violate(&format!("headers/rewrite_path_not_applied/{pair}"), format!("frontend rewrite_path {want:?}, backend saw target {:?}", rec.target), Value::Null);
            }
        } else if rec.target != spec.path {
            self.violate(&format!("headers/target_altered/{pair}"), format!("backend saw target {:?}, client sent {:?}", rec.target, spec.path), Value::Null);
        }
        let want_auth = if rw { rewrite_host(cdef) } else { spec.authority.clone() };
        let auth_name = if rec.back == Back::H1 { "host" } else { ":authority" };
        let got_auth = backend.get(auth_name).unwrap_or(&empty);
        if got_auth.len() != 1 || !got_auth[0].eq_ignore_ascii_case(want_auth.as_bytes()) {
            let sig = if got_auth.len() > 1 && rw { format!("headers/two_host_headers_on_rewrite/{pair}") } else if got_auth.len() != 1 { format!("headers/authority_count/{pair}") } else if rw { format!("headers/rewrite_host_not_applied/{pair}") } else { format!("headers/authority_altered/{pair}") };
            self.violate(&sig, format!("backend saw {auth_name} {:?}, expected exactly one {want_auth:?}", Self::sv(got_auth)), Value::Null);
        }
        if rec.back == Back::H2 && backend.contains_key("host") {
            self.exempt("host_field_next_to_authority_at_h2c_backend", 1);
        }
        if rw {
            let got = backend.get("x-forwarded-host").unwrap_or(&empty);
            if !got.iter().any(|v| v.eq_ignore_ascii_case(spec.authority.as_bytes())) {
                self.violate(&format!("headers/x_forwarded_host_missing_on_rewrite/{pair}"), format!("host rewritten: X-Forwarded-Host must carry the original host {:?}, backend saw {:?}", spec.authority, Self::sv(got)), Value::Null);
            }
        }

        // (a) connection-specific fields never cross into HTTP/2
        if rec.back == Back::H2 {
            for (n, vals) in &backend {
                let te_bad = n == "te" && vals.iter().any(|v| !v.eq_ignore_ascii_case(b"trailers"));
                if HOP_FIXED.contains(&n.as_str()) || te_bad {
                    self.violate("headers/connection_specific_crossed_into_h2/request", format!("h2c backend received connection-specific field {n}: {}", Self::sv(vals)), json!({"field": n}));
                } else if listed.contains(n) && n != "te" {
                    self.violate("headers/connection_listed_field_crossed_into_h2/request", format!("client named {n:?} in Connection (hop-by-hop, RFC 9110 7.6.1) but the h2c backend received it: {}", Self::sv(vals)), json!({"field": n}));
                }
            }
            if !listed.is_empty() {
                self.rep.obs("connection_listed_towards_h2_checked", 1);
                if values_of(&spec.headers, "connection").len() > 1 {
                    self.rep.obs("connection_listed_towards_h2_checked/several_connection_lines/request", 1);
                }
            }
        }

        // (a) end-to-end fields, (b)-(e) handled by name class
        let mut names: Vec<&String> = client.keys().chain(backend.keys()).collect();
        names.sort();
        names.dedup();
        for n in names {
            let c = client.get(n).unwrap_or(&empty);
            let b = backend.get(n).unwrap_or(&empty);
            let ns = n.as_str();
            if ns.starts_with(':') || ns == "host" || ns == "cookie" || IDENTITY_FIXED.contains(&ns) || *n == corr {
                continue;
            }
            if HOP_FIXED.contains(&ns) || ns == "te" || listed.contains(n) {
                self.exempt("hop_by_hop_request_field", (c.len() + b.len()) as u64);
                continue;
            }
            if ns == "content-length" {
                self.exempt("framing_field", 1);
                continue;
            }
            if ns == "trailer" {
                self.exempt("trailer_announcement_field", 1);
                continue;
            }
            if rw && ns == "x-forwarded-host" {
                continue;
            }
            if spec.variant == Variant::Edit && ns == lc(EDIT_ADD.0) {
                self.rep.obs("edit_add_checked", 1);
                if !b.iter().any(|v| *v == EDIT_ADD.1.as_bytes()) {
                    self.violate(&format!("headers/frontend_request_header_not_added/{pair}"), format!("frontend sets {}: {}, backend saw {:?}", EDIT_ADD.0, EDIT_ADD.1, Self::sv(b)), Value::Null);
                }
                if !c.is_empty() {
                    self.exempt("client_field_with_name_of_frontend_set_header", 1);
                }
                continue;
            }
            if spec.variant == Variant::Edit && ns == lc(EDIT_DEL) {
                self.rep.obs("edit_del_checked", c.len() as u64);
                if !b.is_empty() {
                    self.violate(&format!("headers/frontend_request_header_not_deleted/{pair}"), format!("frontend deletes {EDIT_DEL}, backend still saw {}", Self::sv(b)), Value::Null);
                }
                continue;
            }
            // ordinary end-to-end field: exact values, same-name order preserved
            if c == b {
                self.rep.obs("fields_compared", c.len() as u64);
                continue;
            }
            let cls = value_class(if c.len() >= b.len() { c } else { b });
            let (kind, what) = if b.len() < c.len() && is_subsequence(b, c) {
                ("field_lost", "lost")
            } else if b.len() > c.len() && is_subsequence(c, b) {
                ("field_added", "added or duplicated")
            } else {
                let (mut cs, mut bs) = (c.clone(), b.clone());
                cs.sort();
                bs.sort();
                if cs == bs { ("same_name_fields_reordered", "reordered") } else { ("value_altered", "altered") }
            };
            self.violate(&format!("headers/{kind}/{pair}{cls}"), format!("end-to-end request field {n:?} {what}: client sent {:?}, backend received {}", Self::sv(c), Self::sv(b)), json!({"field": n}));
        }

        // (b) cookies
        let cc = client.get("cookie").unwrap_or(&empty);
        let bc = backend.get("cookie").unwrap_or(&empty);
        if !cc.is_empty() || !bc.is_empty() {
            self.rep.obs("cookie_cases", 1);
            let cp = cookie_pairs(cc);
            let bp = cookie_pairs(bc);
            let sticky_prefix = format!("{}=", cfg.sticky_name);
            let is_sticky = |p: &String| p.starts_with(&sticky_prefix);
            if cp.iter().any(|p| !p.contains('=')) {
                self.exempt("malformed_cookie_pair", 1);
            } else {
                let sent_sticky = cp.iter().filter(|p| is_sticky(p)).count();
                for pos in ["sticky:first", "sticky:middle", "sticky:last"] {
                    if spec.tags.contains(&pos) {
                        self.rep.obs(&format!("cookie_{}", pos.replace(':', "_at_")), 1);
                    }
                }
                let others: Vec<&String> = cp.iter().filter(|p| !is_sticky(p)).collect();
                let b_others: Vec<&String> = bp.iter().filter(|p| !is_sticky(p)).collect();
                self.rep.obs("cookie_pairs_compared", others.len() as u64);
                // what kind of pair is it, seen from the sticky cookie name (cookie names are
                // case-sensitive: only the exactly named cookie is sozu's)
                let class_of = |p: &str| -> &'static str {
                    let name = p.split('=').next().unwrap_or("");
                    if name.eq_ignore_ascii_case(&cfg.sticky_name) {
                        "case_variant_of_sticky_name"
                    } else if name.to_ascii_lowercase().contains(&cfg.sticky_name.to_ascii_lowercase()) || cfg.sticky_name.to_ascii_lowercase().contains(&name.to_ascii_lowercase()) && name.len() + 1 >= cfg.sticky_name.len() {
                        "lookalike_of_sticky_name"
                    } else if p.ends_with('=') {
                        "empty_value"
                    } else {
                        "other"
                    }
                };
                for p in &others {
                    match class_of(p) {
                        "case_variant_of_sticky_name" => self.rep.obs("cookie_pairs_compared/case_variant_of_sticky_name", 1),
                        "lookalike_of_sticky_name" => self.rep.obs("cookie_pairs_compared/lookalike_of_sticky_name", 1),
                        "empty_value" => self.rep.obs("cookie_pairs_compared/empty_value", 1),
                        _ => {}
                    }
                }
                if cc.len() > 1 {
                    self.rep.obs(if spec.front.is_h2() { "cookie_cases/several_cookie_fields_h2" } else { "cookie_cases/several_cookie_fields_h1" }, 1);
                }
                if others != b_others {
                    let kind = if b_others.len() < others.len() { "cookie_lost" } else if b_others.len() > others.len() { "cookie_added" } else { "cookie_altered_or_reordered" };
                    // class of the first client pair that did not arrive as sent (in order)
                    let mut it = b_others.iter();
                    let first_bad = others.iter().find(|p| !it.any(|b| b == *p)).map(|p| class_of(p)).unwrap_or("other");
                    self.violate(&format!("headers/{kind}/{pair}/{first_bad}"), format!("every cookie pair except the exactly named sticky cookie {:?} must reach the backend unchanged and in order: client sent {others:?}, backend received {b_others:?}", cfg.sticky_name), json!({"class": first_bad}));
                }
                let b_sticky = bp.iter().filter(|p| is_sticky(p)).count();
                if sent_sticky > 0 {
                    if cdef.sticky {
                        self.rep.obs("sticky_cookie_removal_checked", 1);
                        if b_sticky > 0 {
                            self.violate("headers/sticky_cookie_not_removed", format!("sticky sessions are on, cookie {:?} is sozu's own: backend still received {bp:?}", cfg.sticky_name), Value::Null);
                        } else {
                            self.rep.obs("sticky_removed", 1);
                        }
                    } else {
                        self.exempt("sticky_named_cookie_on_non_sticky_cluster", 1);
                    }
                } else if b_sticky > 0 {
                    self.violate(&format!("headers/cookie_added/{pair}"), format!("backend received a sticky cookie the client never sent: {bp:?}"), Value::Null);
                }
            }
        }

        self.request_metadata(&client, &backend);
        self.request_trailers();
    }

    fn request_metadata(&mut self, client: &BTreeMap<String, Vec<&[u8]>>, backend: &BTreeMap<String, Vec<&[u8]>>) {
        let pair = self.pair.clone();
        let cfg = self.cfg;
        let truth = self.truth.clone();
        let empty: Vec<&[u8]> = Vec::new();
        let scheme = if self.spec.front.is_tls() { "https" } else { "http" };
        self.rep.obs(&format!("peer_mode/{}", truth.mode), 1);

        // X-Forwarded-For
        let c = client.get("x-forwarded-for").unwrap_or(&empty);
        let b = backend.get("x-forwarded-for").unwrap_or(&empty);
        if !c.is_empty() {
            self.rep.obs("spoof_attempts/x-forwarded-for", 1);
            if c.len() > 1 {
                self.rep.obs("spoof_attempts/x-forwarded-for/duplicated", 1);
            }
        }
        if b.is_empty() {
            self.violate(&format!("headers/xff_missing/{pair}"), "backend received no X-Forwarded-For".into(), Value::Null);
        } else {
            self.rep.obs("xff_checked", 1);
            let eb = list_elements(b);
            let ec = if c.is_empty() { Vec::new() } else { list_elements(c) };
            let last = eb.last().cloned().unwrap_or_default();
            if parse_node(&last).map(|(ip, _)| ip) != Some(truth.ip) {
                self.violate("headers/xff_last_element_not_peer", format!("last X-Forwarded-For element is {last:?}, the real peer is {} ({})", truth.ip, truth.mode), json!({"elements": eb}));
            } else if eb[..eb.len() - 1] != ec[..] {
                self.violate(&format!("headers/xff_client_elements_altered/{pair}"), format!("client-supplied X-Forwarded-For elements {ec:?} must stay in front of the appended peer; backend saw {eb:?}"), Value::Null);
            }
        }

        // Forwarded
        let c = client.get("forwarded").unwrap_or(&empty);
        let b = backend.get("forwarded").unwrap_or(&empty);
        if !c.is_empty() {
            self.rep.obs("spoof_attempts/forwarded", 1);
            if c.len() > 1 {
                self.rep.obs("spoof_attempts/forwarded/duplicated", 1);
            }
        }
        if b.is_empty() {
            if c.is_empty() {
                self.exempt("no_forwarded_header_at_backend", 1);
            } else {
                self.violate(&format!("headers/field_lost/{pair}/forwarded"), format!("client sent Forwarded {:?}, backend received none", Self::sv(c)), Value::Null);
            }
        } else {
            self.rep.obs("forwarded_checked", 1);
            let joined = String::from_utf8_lossy(&b.join(&b","[..])).into_owned();
            let eb = split_unquoted(&joined, ',');
            let ec = if c.is_empty() { Vec::new() } else { split_unquoted(&String::from_utf8_lossy(&c.join(&b","[..])), ',') };
            let last = eb.last().cloned().unwrap_or_default();
            let params: Vec<(String, String)> = split_unquoted(&last, ';')
                .iter()
                .filter_map(|p| p.split_once('=').map(|(k, v)| (k.trim().to_ascii_lowercase(), v.trim().to_owned())))
                .collect();
            let node = params.iter().find(|(k, _)| k == "for").and_then(|(_, v)| parse_node(v));
            match node {
                Some((ip, port)) if ip == truth.ip => {
                    if let Some(p) = port {
                        if p != truth.port {
                            self.violate("headers/forwarded_for_port_not_peer", format!("last Forwarded element {last:?} names port {p}, the real peer port is {}", truth.port), Value::Null);
                        }
                    }
                    if let Some((_, p)) = params.iter().find(|(k, _)| k == "proto") {
                        if !p.trim_matches('"').eq_ignore_ascii_case(scheme) {
                            self.violate("headers/forwarded_proto_not_listener", format!("last Forwarded element {last:?} on a {scheme} listener"), Value::Null);
                        }
                    }
                    if eb[..eb.len() - 1] != ec[..] {
                        self.violate(&format!("headers/forwarded_client_elements_altered/{pair}"), format!("client-supplied Forwarded elements {ec:?} must stay in front; backend saw {eb:?}"), Value::Null);
                    }
                }
                _ => self.violate("headers/forwarded_last_element_not_peer", format!("last Forwarded element is {last:?}, the real peer is {} ({})", truth.ip, truth.mode), json!({"elements": eb})),
            }
        }

        // X-Real-IP
        let c = client.get("x-real-ip").unwrap_or(&empty);
        let b = backend.get("x-real-ip").unwrap_or(&empty);
        self.rep.obs(&format!("requests_setting/elide={},send={}", cfg.elide, cfg.send), 1);
        if !c.is_empty() {
            self.rep.obs("spoof_attempts/x-real-ip", 1);
            if c.len() > 1 {
                self.rep.obs("spoof_attempts/x-real-ip/duplicated", 1);
            }
        }
        let kept: &[&[u8]] = if cfg.elide { &[] } else { c };
        let n_extra = b.len() as i64 - kept.len() as i64;
        let allowed_extra = if cfg.send { 1 } else { 0 };
        // with elision on, everything but the (optional) injected last field must be gone
        let survivors: &[&[u8]] = if cfg.elide { &b[..b.len().saturating_sub(allowed_extra as usize)] } else { &[] };
        if cfg.elide && !c.is_empty() && !survivors.is_empty() && survivors.iter().all(|v| c.contains(v)) {
            self.violate("headers/x_real_ip_client_value_not_elided", format!("elide_x_real_ip is on, client sent {}, backend received {}", Self::sv(c), Self::sv(b)), Value::Null);
        } else if !b.starts_with(kept) || n_extra < 0 {
            self.violate(&format!("headers/x_real_ip_altered/{pair}"), format!("X-Real-IP (elide={}, send={}): client sent {}, backend received {}", cfg.elide, cfg.send, Self::sv(c), Self::sv(b)), Value::Null);
        } else if cfg.send {
            self.rep.obs("x_real_ip_injected_checked", 1);
            if n_extra != 1 {
                self.violate(&format!("headers/x_real_ip_injected_count/{pair}"), format!("send_x_real_ip is on: expected exactly one injected X-Real-IP after {}, backend received {}", Self::sv(kept), Self::sv(b)), Value::Null);
            } else {
                let last = String::from_utf8_lossy(b[b.len() - 1]).into_owned();
                if parse_node(&last).map(|(ip, _)| ip) != Some(truth.ip) {
                    self.violate("headers/x_real_ip_not_peer", format!("injected X-Real-IP is {last:?}, the real peer is {} ({})", truth.ip, truth.mode), Value::Null);
                } else if cfg.elide && !c.is_empty() {
                    self.rep.obs("x_real_ip_elision_checked", 1);
                }
            }
        } else if n_extra != 0 {
            self.violate(&format!("headers/x_real_ip_added/{pair}"), format!("send_x_real_ip is off, client sent {}, backend received {}", Self::sv(c), Self::sv(b)), Value::Null);
        } else if cfg.elide && !c.is_empty() {
            self.rep.obs("x_real_ip_elision_checked", 1);
        }

        // X-Forwarded-Proto / X-Forwarded-Port
        for (name, want) in [("x-forwarded-proto", scheme.to_owned()), ("x-forwarded-port", truth.listener_port.to_string())] {
            let c = client.get(name).unwrap_or(&empty);
            let b = backend.get(name).unwrap_or(&empty);
            if c.is_empty() {
                self.rep.obs(&format!("{name}_describes_listener_checked"), 1);
                if b.len() != 1 || !b[0].eq_ignore_ascii_case(want.as_bytes()) {
                    self.violate(&format!("headers/{}_not_listener/{pair}", name.replace('-', "_")), format!("client sent no {name}; expected exactly one {want:?} describing the listener, backend received {}", Self::sv(b)), Value::Null);
                }
            } else {
                self.rep.obs(&format!("spoof_attempts/{name}"), 1);
                // documented: an existing value is trusted (kept); whether sozu adds its own is not documented
                if !is_subsequence(c, b) {
                    self.violate(&format!("headers/field_lost/{pair}/{name}"), format!("client-supplied {name} {:?} is documented as trusted, backend received {}", Self::sv(c), Self::sv(b)), Value::Null);
                } else if b.len() != c.len() {
                    self.exempt("proxy_value_next_to_client_supplied_x_forwarded_proto_port", 1);
                } else {
                    self.exempt("client_supplied_x_forwarded_proto_port_trusted", 1);
                }
            }
        }

        // X-Request-Id: exactly one
        let c = client.get("x-request-id").unwrap_or(&empty);
        let b = backend.get("x-request-id").unwrap_or(&empty);
        if !c.is_empty() {
            self.rep.obs("spoof_attempts/x-request-id", 1);
            if c.len() > 1 {
                self.rep.obs("spoof_attempts/x-request-id/duplicated", 1);
            }
        }
        self.rep.obs("request_id_count_checked", 1);
        match b.len() {
            1 => {
                if c.len() == 1 {
                    self.exempt(if b[0] == c[0] { "client_request_id_propagated" } else { "client_request_id_replaced" }, 1);
                }
            }
            0 => self.violate(&format!("headers/request_id_missing/{pair}"), "backend received no X-Request-Id".into(), Value::Null),
            n => self.violate(&format!("headers/two_request_ids/{pair}"), format!("backend received {n} X-Request-Id fields {:?}; client sent {}", Self::sv(b), Self::sv(c)), Value::Null),
        }

        // correlation header: exactly one, not the client's
        let corr = lc(&cfg.corr_name);
        let c = client.get(&corr).unwrap_or(&empty);
        let b = backend.get(&corr).unwrap_or(&empty);
        if !c.is_empty() {
            self.rep.obs("spoof_attempts/correlation", 1);
            if c.len() > 1 {
                self.rep.obs("spoof_attempts/correlation/duplicated", 1);
            }
            if cfg.corr_custom {
                self.rep.obs("spoof_attempts/correlation/custom_name", 1);
            }
        }
        self.rep.obs("correlation_count_checked", 1);
        match b.len() {
            1 => {
                if c.contains(&b[0]) {
                    self.violate(&format!("headers/correlation_header_spoofed/{pair}"), format!("the only {} at the backend carries the client-supplied value {:?}", cfg.corr_name, show(b[0])), Value::Null);
                } else {
                    let mut resp = values_of(&self.obs.headers, &cfg.corr_name);
                    if self.own_answer && cfg.corr_custom && resp.is_empty() {
                        // sozu's own answer templates carry the id under the default name
                        resp = values_of(&self.obs.headers, "Sozu-Id");
                        if resp.contains(&b[0]) {
                            self.rep.obs("own_answer_uses_default_correlation_name_despite_custom_name", 1);
                        }
                    }
                    if !resp.contains(&b[0]) {
                        self.violate(&format!("headers/correlation_id_differs_between_request_and_response/{pair}"), format!("backend received {} = {:?}, client received {:?}", cfg.corr_name, show(b[0]), Self::sv(&resp)), Value::Null);
                    }
                }
            }
            0 => self.violate(&format!("headers/correlation_header_missing/{pair}"), format!("backend received no {}", cfg.corr_name), Value::Null),
            n => self.violate(&format!("headers/two_correlation_headers/{pair}"), format!("backend received {n} {} fields {:?}; client sent {:?}", cfg.corr_name, Self::sv(b), Self::sv(c)), Value::Null),
        }
    }

    fn request_trailers(&mut self) {
        let pair = self.pair.clone();
        let corr = lc(&self.cfg.corr_name);
        let ct = self.spec.trailers();
        let bt = &self.rec.trailers;
        if ct.is_empty() && bt.is_empty() {
            return;
        }
        self.rep.obs(&format!("trailer_cases/{pair}"), 1);
        if self.spec.cuts.iter().any(|c| matches!(c, Cut::InTrailerRegion(_))) {
            self.rep.obs("trailer_cases_cut_inside_trailer_region", 1);
        }
        let is_identity = |n: &str| IDENTITY_FIXED.contains(&n) || n == corr;
        if !self.spec.front.is_h2() && self.rec.back == Back::H2 && self.spec.cuts.iter().any(|c| matches!(c, Cut::InTrailerRegion(_))) {
            // One root cause, many random faces (fields lost, names resolved against a stale HPACK
            // table): judged as a whole so that the signature is stable.
            let want: Fields = ct.iter().filter(|(n, _)| !is_identity(&lc(n))).cloned().collect();
            self.rep.obs("split_trailer_section_towards_h2c_checked", 1);
            if !bt.is_empty() && group(&want) != group(bt) {
                self.violate("headers/split_trailer_section_corrupts_h2_trailers/request", format!("the trailer section reached sozu in two reads; a correct proxy hands the h2c backend {} (or no trailers), it received {}", fields_json(&want), fields_json(bt)), json!({"cuts": format!("{:?}", self.spec.cuts)}));
            }
            return;
        }
        let attempted: Vec<String> = ct.iter().map(|(n, _)| lc(n)).filter(|n| is_identity(n)).collect();
        if !attempted.is_empty() && self.spec.cuts.iter().any(|c| matches!(c, Cut::InTrailerRegion(_))) {
            self.rep.obs("trailer_identity_attempts_cut_inside_trailer_region", 1);
        }
        for n in &attempted {
            self.rep.obs(&format!("trailer_identity_attempts/{}", if *n == corr { "correlation" } else { n.as_str() }), 1);
        }
        for (n, v) in bt {
            let l = lc(n);
            if is_identity(&l) {
                let class = if l == corr { "correlation".to_owned() } else { l.replace('-', "_") };
                self.violate(&format!("headers/identity_header_in_trailer/{class}/{pair}"), format!("request trailer {n}: {:?} reached the backend (trailers must not inject or duplicate proxy identity headers)", show(v)), json!({"field": l}));
            }
        }
        let c: Fields = ct.iter().filter(|(n, _)| !is_identity(&lc(n))).cloned().collect();
        let b: Fields = bt.iter().filter(|(n, _)| !is_identity(&lc(n))).cloned().collect();
        if b.is_empty() {
            if !c.is_empty() {
                self.exempt("request_trailers_not_forwarded", 1);
            }
            return;
        }
        let (gc, gb) = (group(&c), group(&b));
        if gc == gb {
            self.rep.obs("trailer_fields_compared", c.len() as u64);
        } else if gb.iter().all(|(n, vals)| gc.get(n).is_some_and(|cv| is_subsequence(vals, cv))) {
            self.violate(&format!("headers/request_trailer_lost/{pair}"), format!("part of the request trailers was forwarded, part was lost: client sent {}, backend received {}", fields_json(&c), fields_json(&b)), json!({"cuts": format!("{:?}", self.spec.cuts)}));
        } else {
            self.violate(&format!("headers/request_trailer_altered/{pair}"), format!("forwarded request trailers differ: client sent {}, backend received {}", fields_json(&c), fields_json(&b)), Value::Null);
        }
    }

    // ---------------------------------------------------------------------------------------
    // response direction
    // ---------------------------------------------------------------------------------------

    pub fn response(&mut self) {
        let pair = self.pair.clone();
        let cfg = self.cfg;
        let spec = self.spec;
        let resp = &self.rec.resp;
        let obs = self.obs;
        let cdef = &CLUSTERS[spec.cluster];
        let corr = lc(&cfg.corr_name);
        let empty: Vec<&[u8]> = Vec::new();
        if obs.status != resp.status {
            self.violate(&format!("headers/status_altered/{pair}"), format!("backend answered {}, client received {}", resp.status, obs.status), Value::Null);
        }
        let mut sent_fields = resp.headers.clone();
        sent_fields.push(("x-vh-rec".to_owned(), self.rec.serial.to_string().into_bytes()));
        let sent = group(&sent_fields);
        let got = group(&obs.headers);
        let listed = connection_listed(&resp.headers);

        if spec.front.is_h2() {
            for (n, vals) in &got {
                if HOP_FIXED.contains(&n.as_str()) || n == "te" {
                    self.violate("headers/connection_specific_crossed_into_h2/response", format!("H2 client received connection-specific field {n}: {}", Self::sv(vals)), json!({"field": n}));
                } else if listed.contains(n) {
                    self.violate("headers/connection_listed_field_crossed_into_h2/response", format!("backend named {n:?} in Connection but the H2 client received it: {}", Self::sv(vals)), json!({"field": n}));
                }
            }
            if !listed.is_empty() {
                self.rep.obs("connection_listed_towards_h2_checked", 1);
                if values_of(&resp.headers, "connection").len() > 1 {
                    self.rep.obs("connection_listed_towards_h2_checked/several_connection_lines/response", 1);
                }
            }
        }

        let mut names: Vec<&String> = sent.keys().chain(got.keys()).collect();
        names.sort();
        names.dedup();
        for n in names {
            let s = sent.get(n).unwrap_or(&empty);
            let g = got.get(n).unwrap_or(&empty);
            let ns = n.as_str();
            if HOP_FIXED.contains(&ns) || ns == "te" || listed.contains(n) {
                self.exempt("hop_by_hop_response_field", (s.len() + g.len()) as u64);
                continue;
            }
            if ns == "content-length" || ns == "trailer" {
                self.exempt("framing_field", 1);
                continue;
            }
            if ns == "set-cookie" {
                let prefix = format!("{}=", cfg.sticky_name);
                if s == g {
                    self.rep.obs("response_fields_compared", s.len() as u64);
                } else if cdef.sticky && g.len() == s.len() + 1 && (0..g.len()).any(|i| g[i].starts_with(prefix.as_bytes()) && g[..i].iter().chain(g[i + 1..].iter()).eq(s.iter())) {
                    self.rep.obs("sticky_set_cookie_added", 1);
                    self.rep.obs("response_fields_compared", s.len() as u64);
                } else if !cdef.sticky && g.len() == s.len() + 1 && (0..g.len()).any(|i| g[i].starts_with(prefix.as_bytes()) && g[..i].iter().chain(g[i + 1..].iter()).eq(s.iter())) {
                    self.violate("headers/sticky_set_cookie_on_non_sticky_cluster", format!("cluster {} has sticky_session off, yet the client received an extra sticky Set-Cookie: backend sent {:?}, client received {:?}", cdef.id, Self::sv(s), Self::sv(g)), Value::Null);
                } else {
                    self.violate(&format!("headers/set_cookie_altered/{pair}"), format!("Set-Cookie (sticky_session={}): backend sent {:?}, client received {:?}", cdef.sticky, Self::sv(s), Self::sv(g)), Value::Null);
                }
                continue;
            }
            if ns == "strict-transport-security" {
                let want = cfg.expected_hsts(spec.front, spec.variant);
                if !s.is_empty() {
                    // documented: a backend-supplied value passes through, a single header reaches the wire
                    self.rep.obs("hsts_backend_value_checked", 1);
                    if s != g {
                        self.violate(&format!("headers/hsts_backend_value_not_preserved/{pair}"), format!("backend sent Strict-Transport-Security {:?}, client received {:?} (policy {want:?})", Self::sv(s), Self::sv(g)), Value::Null);
                    }
                } else if let Some(p) = want {
                    self.rep.obs("hsts_expected_seen", 1);
                    if g.len() != 1 || hsts_directives(g[0]) != hsts_expected(&p) {
                        self.violate(&format!("headers/hsts_value_wrong/{pair}"), format!("configured HSTS {p:?}, client received {}", Self::sv(g)), Value::Null);
                    }
                } else if !spec.front.is_tls() {
                    self.violate("headers/hsts_on_plaintext", format!("plaintext client received Strict-Transport-Security {}", Self::sv(g)), Value::Null);
                } else {
                    self.violate(&format!("headers/hsts_unexpected/{pair}"), format!("no HSTS policy applies (variant {}, listener {:?}), client received {:?}", spec.variant.name(), cfg.listener_hsts, Self::sv(g)), Value::Null);
                }
                continue;
            }
            if *n == corr {
                self.rep.obs("response_correlation_checked", 1);
                if g.len() == s.len() + 1 && is_subsequence(s, g) {
                    self.rep.obs("response_fields_compared", s.len() as u64);
                } else if g.len() <= s.len() {
                    self.violate(&format!("headers/correlation_header_missing_in_response/{pair}"), format!("backend sent {} {:?}, client received {:?}: sozu's own id is documented on every response", cfg.corr_name, Self::sv(s), Self::sv(g)), Value::Null);
                } else {
                    self.violate(&format!("headers/response_correlation_header_altered/{pair}"), format!("backend sent {} {:?}, client received {:?}", cfg.corr_name, Self::sv(s), Self::sv(g)), Value::Null);
                }
                continue;
            }
            if spec.variant == Variant::Edit && ns == lc(RESP_ADD.0) {
                self.rep.obs("edit_response_add_checked", 1);
                if !g.iter().any(|v| *v == RESP_ADD.1.as_bytes()) {
                    self.violate(&format!("headers/frontend_response_header_not_added/{pair}"), format!("frontend sets {}: {}, client received {:?}", RESP_ADD.0, RESP_ADD.1, Self::sv(g)), Value::Null);
                }
                continue;
            }
            if spec.variant == Variant::Edit && ns == lc(RESP_DEL) {
                self.rep.obs("edit_response_del_checked", s.len() as u64);
                if !g.is_empty() {
                    self.violate(&format!("headers/frontend_response_header_not_deleted/{pair}"), format!("frontend deletes {RESP_DEL}, client still received {}", Self::sv(g)), Value::Null);
                }
                continue;
            }
            if s == g {
                self.rep.obs("response_fields_compared", s.len() as u64);
                continue;
            }
            let cls = value_class(if s.len() >= g.len() { s } else { g });
            if s.is_empty() {
                let tag = if KNOWN_RESPONSE_NAMES.contains(&ns) { ns } else { "other" };
                self.violate(&format!("headers/unexpected_response_header_added/{tag}"), format!("client received {n}: {:?} which the backend never sent and no documented addition explains", Self::sv(g)), json!({"field": n}));
                continue;
            }
            let (kind, what) = if g.len() < s.len() && is_subsequence(g, s) {
                ("response_field_lost", "lost")
            } else if g.len() > s.len() && is_subsequence(s, g) {
                ("response_field_added", "added or duplicated")
            } else {
                let (mut a, mut b) = (s.clone(), g.clone());
                a.sort();
                b.sort();
                if a == b { ("response_same_name_fields_reordered", "reordered") } else { ("response_value_altered", "altered") }
            };
            self.violate(&format!("headers/{kind}/{pair}{cls}"), format!("response field {n:?} {what}: backend sent {:?}, client received {}", Self::sv(s), Self::sv(g)), json!({"field": n}));
        }
        // a configured HSTS policy with no Strict-Transport-Security anywhere
        if let Some(p) = cfg.expected_hsts(spec.front, spec.variant) {
            if !sent.contains_key("strict-transport-security") && !got.contains_key("strict-transport-security") {
                self.rep.obs("hsts_expected_seen", 1);
                self.violate(&format!("headers/hsts_missing/{pair}"), format!("configured HSTS {p:?} on an HTTPS frontend, client received no Strict-Transport-Security"), Value::Null);
            }
        }
        if cfg.expected_hsts(spec.front, spec.variant).is_none() && !got.contains_key("strict-transport-security") {
            self.rep.obs(if spec.front.is_tls() { "hsts_absent_as_configured" } else { "hsts_absent_on_plaintext" }, 1);
        }

        // response trailers
        if !resp.trailers.is_empty() || !obs.trailers.is_empty() {
            self.rep.obs(&format!("response_trailer_cases/{pair}"), 1);
            if spec.front.is_h2() && resp.cut_in_trailer_region.is_some() {
                self.rep.obs("split_trailer_section_towards_h2_client_checked", 1);
            }
            if obs.trailers.is_empty() {
                self.exempt("response_trailers_not_forwarded", 1);
            } else if group(&resp.trailers) != group(&obs.trailers) && spec.front.is_h2() && resp.cut_in_trailer_region.is_some() {
                self.violate("headers/split_trailer_section_corrupts_h2_trailers/response", format!("the backend's trailer section reached sozu in two reads: backend sent trailers {}, the H2 client received {}", fields_json(&resp.trailers), fields_json(&obs.trailers)), Value::Null);
            } else if group(&resp.trailers) != group(&obs.trailers) {
                self.violate(&format!("headers/response_trailer_altered/{pair}"), format!("backend sent trailers {}, client received {}", fields_json(&resp.trailers), fields_json(&obs.trailers)), Value::Null);
            } else {
                self.rep.obs("response_trailer_fields_compared", obs.trailers.len() as u64);
            }
        }
    }
}
