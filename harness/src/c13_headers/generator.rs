//! C13 generators: cell settings, request header lists (grammar), backend response lists.

use std::net::{IpAddr, Ipv4Addr, Ipv6Addr, SocketAddr};

use super::model::*;
use crate::common::Rng;

const ORD_NAMES: &[&str] = &[
    "Accept", "Accept-Language", "User-Agent", "Referer", "Authorization", "Content-Type", "X-Custom", "X-Trace",
    "If-None-Match", "Cache-Control", "Pragma", "Origin", "X-Api-Key", "Via", "Accept-Encoding", "X-Requested-With",
    // near misses of the names sozu edits: must be treated as ordinary end-to-end fields
    "Sozu-Identity", "X-Forwarded-Fork", "X-Real-IPv6", "Forwarded-For", "X-Forwarded-Server", "X-Forwarded",
    "X-Request-Identity", "Cookie2", "Connection-Info", "Keep-Alive-Hint", "Upgrade-Insecure-Requests", "X-Real",
    "X-Forwarded-Host",
];

const RESP_NAMES: &[&str] = &[
    "Content-Type", "Cache-Control", "ETag", "X-Powered-By", "Vary", "Location", "Server", "Date", "X-Frame-Options",
    "Last-Modified", "Content-Language", "X-Backend", "Via", "Link", "X-Forwarded-For", "X-Request-Id", "X-Real-IP",
    "Forwarded", "WWW-Authenticate", "Accept-Ranges",
];

const NAME_EXTRA: &[u8] = b"!#$%&'*+.^`|~";

pub fn gen_cell(rng: &mut Rng, cell: u64, ip: Ipv4Addr) -> CellCfg {
    let corr_custom = rng.chance(1, 2);
    let corr_name = if corr_custom {
        (*rng.pick(&["X-Edge-Id", "x-request-trace", "Corr.Id_1", "SOZU-ID-2"])).to_owned()
    } else {
        "Sozu-Id".to_owned()
    };
    let sticky_custom = rng.chance(1, 2);
    let sticky_name = if sticky_custom {
        (*rng.pick(&["SID", "my.sticky-cookie", "sozubalanceid", "LB_ID", "ServerId", "SERVERID", "Sticky_lb.Id"])).to_owned()
    } else {
        "SOZUBALANCEID".to_owned()
    };
    let listener_hsts = if rng.chance(2, 5) {
        Some(HstsPolicy { max_age: *rng.pick(&[86_400u32, 777_000, 31_536_000]), include_sub: rng.bool(), preload: rng.chance(1, 4) })
    } else {
        None
    };
    CellCfg {
        cell,
        ip,
        elide: rng.bool(),
        send: rng.bool(),
        corr_name,
        corr_custom,
        sticky_name,
        sticky_custom,
        listener_hsts,
        v6_ports: None,
    }
}

pub fn random_source_v4(rng: &mut Rng) -> Ipv4Addr {
    Ipv4Addr::new(127, rng.range(1, 250) as u8, rng.range(0, 255) as u8, rng.range(1, 254) as u8)
}

pub fn random_announced(rng: &mut Rng) -> SocketAddr {
    let port = rng.range(1024, 65535) as u16;
    if rng.chance(1, 2) {
        let ip = *rng.pick(&[
            Ipv4Addr::new(203, 0, 113, 7),
            Ipv4Addr::new(198, 51, 100, 200),
            Ipv4Addr::new(10, 0, 0, 1),
            Ipv4Addr::new(192, 0, 2, 255),
            Ipv4Addr::new(8, 8, 4, 4),
        ]);
        let mut o = ip.octets();
        o[3] = rng.range(1, 254) as u8;
        SocketAddr::new(IpAddr::V4(Ipv4Addr::from(o)), port)
    } else {
        let ip = Ipv6Addr::new(0x2001, 0xdb8, rng.below(0x10000) as u16, 0, 0, 0, rng.below(0x10000) as u16, rng.range(1, 0xffff) as u16);
        SocketAddr::new(IpAddr::V6(ip), port)
    }
}

fn case_variant(rng: &mut Rng, name: &str, lower_only: bool) -> String {
    if lower_only {
        return name.to_ascii_lowercase();
    }
    match rng.below(6) {
        0 => name.to_ascii_lowercase(),
        1 => name.to_ascii_uppercase(),
        2 => name
            .chars()
            .map(|c| if rng.bool() { c.to_ascii_uppercase() } else { c.to_ascii_lowercase() })
            .collect(),
        _ => name.to_owned(),
    }
}

fn random_name(rng: &mut Rng, lower_only: bool) -> String {
    let mut s = String::from(if rng.bool() { "X-" } else { "Zz" });
    let n = rng.urange(2, 12);
    for _ in 0..n {
        let c = if rng.chance(1, 12) {
            *rng.pick(NAME_EXTRA) as char
        } else {
            *rng.pick(b"abcdefghijklmnopqrstuvwxyzABCDEFGHIJKLMNOPQRSTUVWXYZ0123456789-_") as char
        };
        s.push(c);
    }
    if lower_only { s.to_ascii_lowercase() } else { s }
}

/// a field value; `long_left` is the remaining budget of long values for this message
pub fn gen_value(rng: &mut Rng, long_left: &mut usize, tags: &mut Vec<&'static str>) -> Vec<u8> {
    match rng.below(40) {
        0..=1 => {
            tags.push("v:empty");
            Vec::new()
        }
        2..=5 => b"foo  bar\tbaz qux".to_vec(),
        6..=9 => b"a, b,c ,d,,e".to_vec(),
        10..=12 => b"\"quoted, \\\"string\\\"\"; q=0.5, 'single'".to_vec(),
        13..=16 => b"k=v; path=/x:y?z=1&w=2#frag (comment) <a@b> [c] {d}".to_vec(),
        17..=19 if *long_left > 0 => {
            *long_left -= 1;
            tags.push("v:long");
            let n = rng.urange(600, 3500);
            (0..n).map(|i| b"abcdefghijklmnopqrstuvwxyz0123456789 ,;="[(i * 7 + n) % 40]).collect::<Vec<u8>>().trim_ascii().to_vec()
        }
        20 => b"*/*;q=0.8".to_vec(),
        21..=23 => format!("{}.{}.{}.{}", rng.below(256), rng.below(256), rng.below(256), rng.below(256)).into_bytes(),
        24..=26 => rng.below(1_000_000).to_string().into_bytes(),
        _ => {
            let n = rng.urange(1, 24);
            (0..n).map(|_| *rng.pick(b"abcdefghijklmnopqrstuvwxyzABCDEFGHIJKLMNOPQRSTUVWXYZ0123456789-_./+=")).collect()
        }
    }
}

/// the sticky cookie name with some letters in the other case (never the name itself)
fn sticky_case_variant(rng: &mut Rng, name: &str) -> String {
    let flip = |c: char| if c.is_ascii_uppercase() { c.to_ascii_lowercase() } else { c.to_ascii_uppercase() };
    let v: String = match rng.below(4) {
        0 => name.to_ascii_lowercase(),
        1 => name.to_ascii_uppercase(),
        2 => name.chars().map(|c| if rng.bool() { flip(c) } else { c }).collect(),
        _ => name.chars().map(flip).collect(),
    };
    if v != name {
        return v;
    }
    // flip the first letter
    let i = name.find(|c: char| c.is_ascii_alphabetic()).unwrap_or(0);
    name.chars().enumerate().map(|(k, c)| if k == i { flip(c) } else { c }).collect()
}

fn cookie_value(rng: &mut Rng) -> String {
    match rng.below(8) {
        0 => String::new(),
        1 => "a=b=c".to_owned(),
        2 => "\"dq\"".to_owned(),
        3 => "with space".to_owned(),
        _ => {
            let n = rng.urange(1, 20);
            (0..n).map(|_| *rng.pick(b"abcdefghijklmnopqrstuvwxyz0123456789-_.%~!*") as char).collect()
        }
    }
}

fn push_dups(rng: &mut Rng, out: &mut Fields, name: &str, lower: bool, vals: &[&str], tags: &mut Vec<&'static str>, dup_tag: &'static str) {
    let n = if rng.chance(1, 3) { rng.urange(2, 3) } else { 1 };
    if n > 1 {
        tags.push(dup_tag);
    }
    for _ in 0..n {
        out.push((case_variant(rng, name, lower), rng.pick(vals).as_bytes().to_vec()));
    }
}

pub fn gen_request(rng: &mut Rng, cfg: &CellCfg, index: u64, front: Front) -> ReqSpec {
    let lower = front.is_h2();
    let mut tags: Vec<&'static str> = Vec::new();
    let cluster = rng.usize_below(CLUSTERS.len());
    let cdef = &CLUSTERS[cluster];
    let variant = match rng.below(10) {
        0..=4 => Variant::Plain,
        5..=6 => Variant::Edit,
        7 => Variant::Rw,
        _ => {
            if front.is_tls() { Variant::Hsts } else { Variant::Plain }
        }
    };
    let mut authority = hostname(variant, cdef);
    if !lower && rng.chance(1, 40) {
        authority = authority.to_ascii_uppercase();
        tags.push("host:upper");
    }
    let mut path = String::from("/");
    for _ in 0..rng.urange(0, 3) {
        let n = rng.urange(1, 8);
        for _ in 0..n {
            path.push(*rng.pick(b"abcdefghijklmnopqrstuvwxyzABCDEFGHIJKLMNOPQRSTUVWXYZ0123456789-._~") as char);
        }
        if rng.chance(1, 6) {
            path.push_str("%20%2F");
        }
        path.push('/');
    }
    if rng.chance(1, 3) {
        path.push_str(*rng.pick(&["?a=1&b=2", "?q=x%20y", "?", "?x=1;y=2&z[]=3", "?u=http://h/p?q"]));
        tags.push("query");
    }

    let mut long_left = 2usize;
    let mut items: Vec<Fields> = Vec::new(); // groups whose relative order is kept; groups get shuffled

    // ordinary end-to-end fields
    let n_ord = rng.urange(0, 10);
    for _ in 0..n_ord {
        let base = if rng.chance(2, 3) { (*rng.pick(ORD_NAMES)).to_owned() } else { random_name(rng, lower) };
        let copies = if rng.chance(1, 4) { rng.urange(2, 3) } else { 1 };
        if copies > 1 {
            tags.push("ord:dup");
        }
        let mut g = Fields::new();
        for _ in 0..copies {
            g.push((case_variant(rng, &base, lower), gen_value(rng, &mut long_left, &mut tags)));
        }
        items.push(g);
    }

    // a list-valued end-to-end field, as one list or as several field lines
    if rng.chance(1, 6) {
        tags.push("via");
        let hops = ["1.1 edge-a", "1.0 fred", "2 cdn.example (squid/3.5)"];
        if rng.bool() {
            items.push(vec![(case_variant(rng, "Via", lower), hops.join(", ").into_bytes())]);
        } else {
            tags.push("via:lines>1");
            items.push(hops.iter().map(|h| (case_variant(rng, "Via", lower), h.as_bytes().to_vec())).collect());
        }
    }

    // cookies
    if rng.chance(1, 2) {
        tags.push("cookie");
        let n = rng.urange(1, 8);
        let mut pairs: Vec<String> = (0..n).map(|i| format!("ck{}{}={}", i, rng.below(100), cookie_value(rng))).collect();
        // cookies that are NOT sozu's: names differing from the sticky name by letter case only
        // (cookie names are case-sensitive, RFC 6265), and prefix / suffix look-alikes
        if rng.chance(2, 5) {
            tags.push("cookie:sticky-case-variant");
            for _ in 0..rng.urange(1, 2) {
                let name = sticky_case_variant(rng, &cfg.sticky_name);
                let val = match rng.below(4) {
                    0 => sticky_id(cdef),
                    1 => String::new(),
                    _ => cookie_value(rng),
                };
                let at = rng.usize_below(pairs.len() + 1);
                pairs.insert(at, format!("{name}={val}"));
            }
        }
        if rng.chance(3, 10) {
            tags.push("cookie:sticky-lookalike");
            for _ in 0..rng.urange(1, 2) {
                let name = match rng.below(5) {
                    0 => format!("{}X", cfg.sticky_name),
                    1 => format!("X{}", cfg.sticky_name),
                    2 => format!("{}{}", cfg.sticky_name, cfg.sticky_name),
                    3 => cfg.sticky_name[..cfg.sticky_name.len() - 1].to_owned(),
                    _ => format!("{}x", cfg.sticky_name.to_ascii_lowercase()),
                };
                let at = rng.usize_below(pairs.len() + 1);
                pairs.insert(at, format!("{}={}", name, cookie_value(rng)));
            }
        }
        if rng.chance(1, 2) {
            let val = match rng.below(5) {
                0 | 1 => sticky_id(cdef),
                2 => String::new(),
                _ => "bogus".to_owned(),
            };
            let sticky = format!("{}={}", cfg.sticky_name, val);
            let pos = match rng.below(3) {
                0 => {
                    tags.push("sticky:first");
                    0
                }
                1 => {
                    tags.push("sticky:last");
                    pairs.len()
                }
                _ => {
                    tags.push("sticky:middle");
                    pairs.len() / 2
                }
            };
            pairs.insert(pos, sticky);
            if rng.chance(1, 6) {
                tags.push("sticky:twice");
                pairs.push(format!("{}=second", cfg.sticky_name));
            }
        }
        if rng.chance(1, 25) {
            tags.push("cookie:malformed");
            pairs.insert(rng.usize_below(pairs.len() + 1), "flagonly".to_owned());
        }
        // distribute over 1..3 Cookie fields
        let n_fields = if lower && pairs.len() > 1 && rng.chance(2, 5) {
            // HTTP/2 cookie crumbs: one field per pair
            tags.push("cookie:crumbs");
            pairs.len()
        } else if pairs.len() > 1 && rng.chance(1, 3) {
            rng.urange(2, 3.min(pairs.len()))
        } else {
            1
        };
        if n_fields > 1 {
            tags.push("cookie:fields>1");
        }
        let mut g = Fields::new();
        let per = pairs.len().div_ceil(n_fields);
        for chunk in pairs.chunks(per) {
            let sep = if !lower && rng.chance(1, 6) { ";" } else { "; " };
            g.push((case_variant(rng, "Cookie", lower), chunk.join(sep).into_bytes()));
        }
        // cookie fields need not be adjacent
        if g.len() > 1 && rng.bool() {
            for f in g {
                items.push(vec![f]);
            }
        } else {
            items.push(g);
        }
    }

    // hop-by-hop (H1 fronts; an H2 request carrying them is malformed and refused as a whole)
    if !lower && rng.chance(3, 10) {
        tags.push("hop");
        let mut options: Vec<String> = Vec::new();
        let mut fields = Fields::new();
        let n_custom = rng.urange(0, 3);
        for name in ["X-Hop-One", "x-hop-two", "X-Secret-Hop"].iter().take(n_custom) {
            options.push(case_variant(rng, name, false));
            fields.push(((*name).to_owned(), format!("hop-value-of-{name}").into_bytes()));
        }
        if n_custom > 0 {
            tags.push("hop:listed");
        }
        match rng.below(8) {
            0 | 1 => {
                options.push(case_variant(rng, "keep-alive", false));
                fields.push(("Keep-Alive".to_owned(), b"timeout=5, max=100".to_vec()));
            }
            2 | 3 => {
                options.push(case_variant(rng, "TE", false));
                match rng.below(3) {
                    0 => fields.push(("TE".to_owned(), b"trailers".to_vec())),
                    1 => fields.push(("TE".to_owned(), b"gzip;q=0.5, trailers".to_vec())),
                    _ => {
                        tags.push("te:lines>1");
                        fields.push(("TE".to_owned(), b"gzip".to_vec()));
                        fields.push(("te".to_owned(), b"trailers".to_vec()));
                    }
                }
            }
            4 => {
                tags.push("hop:close");
                options.push(case_variant(rng, "close", false));
            }
            _ => {}
        }
        if rng.chance(1, 8) {
            fields.push((case_variant(rng, "Proxy-Connection", false), b"keep-alive".to_vec()));
        }
        if !options.is_empty() {
            // the same option list as one field line or spread over several
            rng.shuffle(&mut options);
            let n_lines = if options.len() > 1 && rng.chance(3, 5) { rng.urange(2, options.len().min(3)) } else { 1 };
            if n_lines > 1 {
                tags.push("hop:connection-lines>1");
            }
            let per = options.len().div_ceil(n_lines);
            for line in options.chunks(per) {
                let sep = *rng.pick(&[", ", ",", " ,\t", ",  ", " , "]);
                fields.push((case_variant(rng, "Connection", false), line.join(sep).into_bytes()));
            }
        }
        for f in fields {
            items.push(vec![f]);
        }
    } else if lower && rng.chance(1, 8) {
        tags.push("te:trailers");
        items.push(vec![("te".to_owned(), b"trailers".to_vec())]);
    }

    // identity headers supplied by the client (spoof attempts)
    let mut g = Fields::new();
    if rng.chance(7, 20) {
        tags.push("id:xff");
        push_dups(rng, &mut g, "X-Forwarded-For", lower, &["1.2.3.4", "1.2.3.4, 5.6.7.8", "9.9.9.9,", "", "unknown, 2001:db8::1", "127.0.0.1", "6.6.6.6 , 7.7.7.7"], &mut tags, "id:xff:dup");
        items.push(std::mem::take(&mut g));
    }
    if rng.chance(1, 4) {
        tags.push("id:forwarded");
        push_dups(rng, &mut g, "Forwarded", lower, &["for=1.2.3.4", "for=1.2.3.4;proto=https;by=9.9.9.9", "for=\"[2001:db8::1]:4711\", for=8.8.8.8", "for=_hidden;host=evil.test", "FOR=5.5.5.5"], &mut tags, "id:forwarded:dup");
        items.push(std::mem::take(&mut g));
    }
    if rng.chance(1, 5) {
        tags.push("id:xfproto");
        push_dups(rng, &mut g, "X-Forwarded-Proto", lower, &["https", "http", "gopher"], &mut tags, "id:xfproto:dup");
        items.push(std::mem::take(&mut g));
    }
    if rng.chance(1, 5) {
        tags.push("id:xfport");
        push_dups(rng, &mut g, "X-Forwarded-Port", lower, &["443", "1", "65536"], &mut tags, "id:xfport:dup");
        items.push(std::mem::take(&mut g));
    }
    if rng.chance(3, 10) {
        tags.push("id:xrealip");
        push_dups(rng, &mut g, "X-Real-IP", lower, &["6.6.6.6", "::1", "127.0.0.1", "evil"], &mut tags, "id:xrealip:dup");
        items.push(std::mem::take(&mut g));
    }
    if rng.chance(3, 10) {
        tags.push("id:xreqid");
        push_dups(rng, &mut g, "X-Request-Id", lower, &["client-req-1", "01ARZ3NDEKTSV4RRFFQ69G5FAV", "x y"], &mut tags, "id:xreqid:dup");
        items.push(std::mem::take(&mut g));
    }
    if rng.chance(3, 10) {
        tags.push("id:corr");
        let name = cfg.corr_name.clone();
        push_dups(rng, &mut g, &name, lower, &["client-corr-1", "01ARZ3NDEKTSV4RRFFQ69G5FAV", "spoofed"], &mut tags, "id:corr:dup");
        items.push(std::mem::take(&mut g));
    }
    if cfg.corr_custom && rng.chance(1, 5) {
        // with a custom correlation name, Sozu-Id is an ordinary end-to-end field
        tags.push("ord:sozu-id-under-custom-name");
        items.push(vec![(case_variant(rng, "Sozu-Id", lower), b"ordinary-under-custom-name".to_vec())]);
    }
    if variant == Variant::Edit {
        if rng.chance(1, 2) {
            tags.push("edit:del-sent");
            push_dups(rng, &mut g, EDIT_DEL, lower, &["client-value", "second"], &mut tags, "edit:del-dup");
            items.push(std::mem::take(&mut g));
        }
        if rng.chance(1, 5) {
            items.push(vec![(case_variant(rng, EDIT_ADD.0, lower), b"client-supplied".to_vec())]);
        }
    }

    if rng.chance(1, 40) {
        // obs-text (0x80-0xff) in a field value: refused by sozu's H1 reader unless built tolerant
        tags.push("v:obs");
        let mut v = b"caf".to_vec();
        v.extend_from_slice(&[0xc3, 0xa9, b' ', 0x80, 0xfe, 0xff, b'x']);
        items.push(vec![(case_variant(rng, "X-Obs-Text", lower), v)]);
    }
    rng.shuffle(&mut items);
    let headers: Fields = items.into_iter().flatten().collect();

    // body and trailers
    let body = match rng.below(20) {
        0..=9 => Body::None,
        10..=13 => {
            tags.push("body:length");
            let n = rng.urange(0, 64);
            Body::Length(rng.bytes(n))
        }
        _ => {
            tags.push("body:chunked");
            let n = rng.urange(1, 64);
            let data = rng.bytes(n);
            let mut tr = Fields::new();
            if rng.chance(7, 10) {
                tags.push("trailers");
                for _ in 0..rng.urange(0, 2) {
                    let n = if rng.bool() { "X-Checksum".to_owned() } else { random_name(rng, lower) };
                    tr.push((case_variant(rng, &n, lower), gen_value(rng, &mut 0, &mut tags)));
                }
                if rng.chance(3, 5) {
                    tags.push("trailers:identity");
                    let corr = cfg.corr_name.clone();
                    let cands: [(&str, &str); 7] = [
                        ("X-Forwarded-For", "66.66.66.66"),
                        ("Forwarded", "for=66.66.66.66"),
                        ("X-Real-IP", "66.66.66.66"),
                        ("X-Request-Id", "trailer-req-id"),
                        (&corr, "trailer-corr-id"),
                        ("X-Forwarded-Proto", "gopher"),
                        ("X-Forwarded-Port", "1"),
                    ];
                    for _ in 0..rng.urange(1, 3) {
                        let (n, v) = *rng.pick(&cands);
                        tr.push((case_variant(rng, n, lower), v.as_bytes().to_vec()));
                    }
                }
                rng.shuffle(&mut tr);
            }
            Body::Chunked(data, tr)
        }
    };
    // an H1 request without any framing never gets END_STREAM towards an h2c backend (sozu keeps
    // the stream open: by-product finding, C02's business); announce the empty body explicitly
    let body = match body {
        Body::None if !lower && cdef.back == Back::H2 => {
            tags.push("body:cl0-for-h2c");
            Body::Length(Vec::new())
        }
        b => b,
    };
    // `Trailer` announcement (a list-valued field: one line or several)
    let mut headers = headers;
    if let Body::Chunked(_, tr) = &body {
        if !tr.is_empty() && rng.chance(3, 10) {
            tags.push("trailer-announcement");
            let names: Vec<String> = tr.iter().map(|(n, _)| n.clone()).collect();
            let at = rng.usize_below(headers.len() + 1);
            if names.len() > 1 && rng.bool() {
                for (k, n) in names.iter().enumerate() {
                    headers.insert((at + k).min(headers.len()), (case_variant(rng, "Trailer", lower), n.clone().into_bytes()));
                }
            } else {
                headers.insert(at, (case_variant(rng, "Trailer", lower), names.join(", ").into_bytes()));
            }
        }
    }
    // correlation token of the harness (an ordinary end-to-end field, compared like the others): lets
    // the cell loop tell this request's backend record from a late record of an earlier request
    let at = rng.usize_below(headers.len() + 1);
    headers.insert(at, (case_variant(rng, "X-Vh-Req", lower), format!("{}-{}", cfg.cell, index).into_bytes()));
    // H1: cut the request bytes at structurally interesting positions
    let mut cuts: Vec<Cut> = Vec::new();
    if !lower {
        let pm = |rng: &mut Rng| rng.range(0, 1000) as u16;
        let has_trailers = matches!(&body, Body::Chunked(_, t) if !t.is_empty());
        if matches!(&body, Body::Chunked(..)) && rng.chance(if has_trailers { 4 } else { 1 }, 5) {
            tags.push("seg:trailer-region");
            cuts.push(Cut::InTrailerRegion(pm(rng)));
            if rng.chance(1, 3) {
                cuts.push(Cut::InTrailerRegion(pm(rng)));
            }
        }
        if rng.chance(1, 4) {
            match rng.below(5) {
                0 | 1 => {
                    tags.push("seg:in-head");
                    cuts.push(Cut::InHead(pm(rng)));
                    if rng.bool() {
                        cuts.push(Cut::InHead(pm(rng)));
                    }
                }
                2 => {
                    tags.push("seg:head-body");
                    cuts.push(Cut::HeadBody);
                }
                3 => {
                    tags.push("seg:chunk-size");
                    cuts.push(Cut::InChunkSize(pm(rng)));
                }
                _ => {
                    tags.push("seg:in-body");
                    cuts.push(Cut::InBody(pm(rng)));
                }
            }
        }
    }
    let method = match &body {
        Body::None => *rng.pick(&["GET", "GET", "GET", "DELETE", "OPTIONS", "QUERYX"]),
        Body::Length(b) if b.is_empty() => *rng.pick(&["GET", "DELETE", "POST"]),
        _ => *rng.pick(&["POST", "PUT", "PATCH"]),
    }
    .to_owned();

    ReqSpec { index, front, cluster, variant, method, authority, path, headers, body, host_last: !lower && rng.chance(1, 5), cuts, tags }
}

/// response header list of a recording backend (deterministic in (seed, cell, serial))
pub fn gen_response(rng: &mut Rng, corr_name: &str, sticky_name: &str, back: Back) -> RespSpec {
    let lower = back == Back::H2;
    let mut tags = Vec::new();
    let mut long_left = 1usize;
    let mut items: Vec<Fields> = Vec::new();
    for _ in 0..rng.urange(0, 8) {
        let base = if rng.chance(3, 4) { (*rng.pick(RESP_NAMES)).to_owned() } else { random_name(rng, lower) };
        let copies = if rng.chance(1, 4) { 2 } else { 1 };
        let mut g = Fields::new();
        for _ in 0..copies {
            let mut v = gen_value(rng, &mut long_left, &mut tags);
            if v.iter().any(|b| *b >= 0x80) {
                v = b"plain".to_vec(); // obs-text is exercised on the request side only
            }
            g.push((case_variant(rng, &base, lower), v));
        }
        items.push(g);
    }
    if rng.chance(2, 5) {
        let mut g = Fields::new();
        for i in 0..rng.urange(1, 3) {
            let name = if rng.chance(1, 5) { sticky_name.to_owned() } else { format!("bk{i}") };
            g.push((case_variant(rng, "Set-Cookie", lower), format!("{name}=v{}; Path=/; HttpOnly", rng.below(1000)).into_bytes()));
        }
        items.push(g);
    }
    if rng.chance(3, 20) {
        items.push(vec![(case_variant(rng, "Strict-Transport-Security", lower), b"max-age=5".to_vec())]);
    }
    if rng.chance(3, 20) {
        let mut g = vec![(case_variant(rng, corr_name, lower), b"backend-supplied-id".to_vec())];
        if rng.chance(1, 3) {
            g.push((case_variant(rng, corr_name, lower), b"backend-supplied-id-2".to_vec()));
        }
        items.push(g);
    }
    if rng.chance(1, 4) {
        items.push(vec![(case_variant(rng, RESP_DEL, lower), b"backend-value".to_vec())]);
    }
    if rng.chance(1, 10) {
        items.push(vec![(case_variant(rng, RESP_ADD.0, lower), b"backend-own-value".to_vec())]);
    }
    if !lower && rng.chance(1, 4) {
        // hop-by-hop response fields; the option list as one Connection line or several
        let mut options: Vec<String> = Vec::new();
        let n_custom = rng.urange(0, 2);
        for name in ["X-Resp-Hop", "x-resp-hop-two"].iter().take(n_custom) {
            options.push(case_variant(rng, name, false));
            items.push(vec![((*name).to_owned(), format!("hop-value-of-{name}").into_bytes())]);
        }
        match rng.below(6) {
            0 | 1 => {
                options.push(case_variant(rng, "keep-alive", false));
                items.push(vec![("Keep-Alive".to_owned(), b"timeout=5".to_vec())]);
            }
            2 => options.push("close".to_owned()),
            3 => items.push(vec![("Proxy-Connection".to_owned(), b"keep-alive".to_vec())]),
            _ => {}
        }
        if !options.is_empty() {
            rng.shuffle(&mut options);
            let n_lines = if options.len() > 1 && rng.chance(3, 5) { options.len().min(3) } else { 1 };
            let per = options.len().div_ceil(n_lines);
            for line in options.chunks(per) {
                let sep = *rng.pick(&[", ", ",", " ,\t", ",  "]);
                items.push(vec![(case_variant(rng, "Connection", false), line.join(sep).into_bytes())]);
            }
        }
    }
    rng.shuffle(&mut items);
    let headers: Fields = items.into_iter().flatten().collect();
    let body_len = if rng.chance(1, 4) { 0 } else { rng.urange(1, 300) };
    let chunked = body_len > 0 && rng.chance(3, 10);
    let mut trailers = Fields::new();
    if chunked && rng.chance(1, 2) {
        for _ in 0..rng.urange(1, 2) {
            trailers.push((case_variant(rng, "X-Resp-Trailer", lower), gen_value(rng, &mut 0, &mut tags)));
        }
    }
    let cut_in_trailer_region = (!lower && chunked && rng.chance(if trailers.is_empty() { 1 } else { 3 }, 5)).then(|| rng.range(0, 1000) as u16);
    RespSpec { status: *rng.pick(&[200u16, 200, 200, 201, 404, 500, 418]), headers, body_len, chunked, trailers, cut_in_trailer_region }
}
