//! C13 peers: recording backends (H1 and prior-knowledge h2c) and client lanes (H1/TCP, H1/TLS,
//! H2/TLS; direct from a chosen source address or behind a PROXY protocol v2 header).

use std::{
    io::{Read, Write},
    net::{IpAddr, Ipv6Addr, SocketAddr, TcpStream},
    sync::{
        Arc, Mutex,
        atomic::{AtomicU64, Ordering},
    },
    time::{Duration, Instant},
};

use super::{generator::gen_response, model::*};
use crate::{
    common::Rng,
    peers::{
        self, BackendServer, IoProgram, h1,
        h2::{self, H2Conn},
        tls,
    },
};

pub struct Shared {
    pub seed: u64,
    pub cell: u64,
    pub corr_name: String,
    pub sticky_name: String,
    pub records: Mutex<Vec<Record>>,
    pub serial: AtomicU64,
    pub backend_errors: Mutex<Vec<String>>,
    /// handles on the h2c backend connections currently open (to close them from the cell loop)
    pub h2_conns: Mutex<Vec<TcpStream>>,
}

impl Shared {
    fn next_response(&self, back: Back) -> (u64, RespSpec) {
        let k = self.serial.fetch_add(1, Ordering::SeqCst);
        let mut rng = Rng::for_case(self.seed, 1301, (self.cell << 24) | k);
        (k, gen_response(&mut rng, &self.corr_name, &self.sticky_name, back))
    }
    /// close every h2c backend connection: sozu has to open a fresh one (fresh HPACK state) for
    /// the next request towards an h2c cluster
    pub fn reset_h2_backend_connections(&self) {
        for s in self.h2_conns.lock().unwrap().drain(..) {
            let _ = s.shutdown(std::net::Shutdown::Both);
        }
    }
    fn note(&self, e: String) {
        let mut g = self.backend_errors.lock().unwrap();
        if g.len() < 20 {
            g.push(e);
        }
    }
}

pub fn body_bytes(serial: u64, n: usize) -> Vec<u8> {
    (0..n).map(|i| b'a' + ((serial as usize + i) % 26) as u8).collect()
}

fn reason(status: u16) -> &'static str {
    match status {
        200 => "OK",
        201 => "Created",
        404 => "Not Found",
        418 => "I'm a teapot",
        500 => "Internal Server Error",
        _ => "Status",
    }
}

pub fn start_h1_backend(addr: SocketAddr, shared: Arc<Shared>) -> std::io::Result<BackendServer> {
    BackendServer::start(addr, IoProgram::fast(), move |mut s, _| {
        let mut p = h1::Parser::new(h1::Kind::Request, false);
        let mut buf = vec![0u8; 32768];
        let mut cur: Option<(h1::Head, usize)> = None;
        let _ = s.set_read_timeout(Some(Duration::from_secs(120)));
        loop {
            let n = match s.read(&mut buf) {
                Ok(0) | Err(_) => return,
                Ok(n) => n,
            };
            let events = match p.feed(&buf[..n]) {
                Ok(e) => e,
                Err(e) => {
                    shared.note(format!("h1 backend could not parse what sozu sent: {e}"));
                    return;
                }
            };
            for e in events {
                match e {
                    h1::Event::Head(h) => cur = Some((h, 0)),
                    h1::Event::Body(b) => {
                        if let Some(c) = cur.as_mut() {
                            c.1 += b.len();
                        }
                    }
                    h1::Event::End(trailers) => {
                        let Some((head, body_len)) = cur.take() else { continue };
                        let (serial, resp) = shared.next_response(Back::H1);
                        let mut out = format!("HTTP/1.1 {} {}\r\n", resp.status, reason(resp.status)).into_bytes();
                        for (n, v) in &resp.headers {
                            out.extend_from_slice(n.as_bytes());
                            out.extend_from_slice(b": ");
                            out.extend_from_slice(v);
                            out.extend_from_slice(b"\r\n");
                        }
                        out.extend_from_slice(format!("X-Vh-Rec: {serial}\r\n").as_bytes());
                        let body = body_bytes(serial, resp.body_len);
                        let mut split_at: Option<usize> = None;
                        if resp.chunked {
                            out.extend_from_slice(b"Transfer-Encoding: chunked\r\n\r\n");
                            let tr: Vec<(String, String)> =
                                resp.trailers.iter().map(|(n, v)| (n.clone(), String::from_utf8_lossy(v).into_owned())).collect();
                            let enc = h1::chunked_encode(&body, &[97, 13], &tr);
                            // region: last-chunk line "0 CRLF" + trailer lines + final CRLF
                            let region_len = 3 + tr.iter().map(|(n, v)| n.len() + 2 + v.len() + 2).sum::<usize>() + 2;
                            let region_start = out.len() + enc.len() - region_len;
                            out.extend_from_slice(&enc);
                            if let Some(pm) = resp.cut_in_trailer_region {
                                split_at = Some(region_start + 1 + (pm as usize * (region_len - 1)) / 1001);
                            }
                        } else {
                            out.extend_from_slice(format!("Content-Length: {}\r\n\r\n", body.len()).as_bytes());
                            out.extend_from_slice(&body);
                        }
                        shared.records.lock().unwrap().push(Record {
                            serial,
                            back: Back::H1,
                            method: head.first.clone(),
                            target: head.second.clone(),
                            headers: head.headers.clone(),
                            trailers,
                            body_len,
                            resp,
                        });
                        let cuts: Vec<usize> = split_at.into_iter().filter(|c| *c > 0 && *c < out.len()).collect();
                        if write_segmented(&mut s, &out, &cuts).is_err() {
                            return;
                        }
                    }
                }
            }
        }
    })
}

fn to_fields(h: &h2::HeaderList) -> Fields {
    h.iter().map(|(n, v)| (String::from_utf8_lossy(n).into_owned(), v.clone())).collect()
}

fn to_h2(f: &[(String, Vec<u8>)]) -> h2::HeaderList {
    f.iter().map(|(n, v)| (n.as_bytes().to_vec(), v.clone())).collect()
}

pub fn start_h2_backend(addr: SocketAddr, shared: Arc<Shared>) -> std::io::Result<BackendServer> {
    BackendServer::start(addr, IoProgram::fast(), move |s, _| {
        if let Ok(handle) = s.try_clone() {
            shared.h2_conns.lock().unwrap().push(handle);
        }
        let mut c = H2Conn::new(s, h2::Role::Server);
        c.auto_ack = true;
        c.obey_windows = true;
        c.replenish = h2::Replenish::Immediately;
        c.trace_cap = 64;
        if let Err(e) = c.handshake_server(&[(h2::SET_MAX_CONCURRENT_STREAMS, 100)]) {
            if e != h2::H2Error::Closed {
                shared.note(format!("h2c backend handshake: {e}"));
            }
            return;
        }
        struct St {
            headers: Fields,
            trailers: Fields,
            body: usize,
        }
        let mut streams: std::collections::BTreeMap<u32, St> = Default::default();
        let mut idle = 0;
        loop {
            let ev = match c.poll(Duration::from_secs(10)) {
                Ok(Some(ev)) => ev,
                Ok(None) => {
                    idle += 1;
                    if idle > 12 {
                        return;
                    }
                    continue;
                }
                Err(_) => return,
            };
            idle = 0;
            if std::env::var_os("VH_C13_DEBUG").is_some() {
                eprintln!("[c13-h2b] {}", match &ev { h2::Event::Headers { stream, headers, end_stream } => format!("HEADERS {stream} n={} es={end_stream}", headers.len()), h2::Event::Data { stream, data, end_stream, .. } => format!("DATA {stream} {} es={end_stream}", data.len()), other => format!("{other:?}") });
            }
            let done = match ev {
                h2::Event::Headers { stream, headers, end_stream } => {
                    match streams.get_mut(&stream) {
                        Some(st) => st.trailers = to_fields(&headers),
                        None => {
                            streams.insert(stream, St { headers: to_fields(&headers), trailers: Vec::new(), body: 0 });
                        }
                    }
                    end_stream.then_some(stream)
                }
                h2::Event::Data { stream, data, end_stream, .. } => {
                    if let Some(st) = streams.get_mut(&stream) {
                        st.body += data.len();
                    }
                    end_stream.then_some(stream)
                }
                h2::Event::RstStream { stream, .. } => {
                    streams.remove(&stream);
                    None
                }
                h2::Event::Closed => return,
                h2::Event::Malformed { frame, why } => {
                    // e.g. an HPACK block this independent decoder cannot decode: the connection's
                    // compression state is lost, nothing read after this can be trusted
                    shared.note(format!("h2c backend: malformed frame from sozu ({}): {why}", frame.describe()));
                    return;
                }
                _ => None,
            };
            let Some(stream) = done else { continue };
            let Some(st) = streams.remove(&stream) else { continue };
            let (serial, resp) = shared.next_response(Back::H2);
            let mut hl: h2::HeaderList = vec![(b":status".to_vec(), resp.status.to_string().into_bytes())];
            hl.extend(to_h2(&resp.headers));
            hl.push((b"x-vh-rec".to_vec(), serial.to_string().into_bytes()));
            let body = body_bytes(serial, resp.body_len);
            let method = values_of(&st.headers, ":method").first().map(|v| String::from_utf8_lossy(v).into_owned()).unwrap_or_default();
            let target = values_of(&st.headers, ":path").first().map(|v| String::from_utf8_lossy(v).into_owned()).unwrap_or_default();
            let has_trailers = !resp.trailers.is_empty();
            let trailers = to_h2(&resp.trailers);
            shared.records.lock().unwrap().push(Record {
                serial,
                back: Back::H2,
                method,
                target,
                headers: st.headers,
                trailers: st.trailers,
                body_len: st.body,
                resp,
            });
            let r = c.send_headers(stream, &hl, body.is_empty() && !has_trailers).and_then(|_| {
                if !body.is_empty() {
                    c.send_data(stream, &body, !has_trailers, None)?;
                }
                if has_trailers {
                    c.send_headers(stream, &trailers, true)?;
                }
                Ok(())
            });
            if r.is_err() {
                return;
            }
        }
    })
}

// ------------------------------------------------------------------------------------------------
// client side
// ------------------------------------------------------------------------------------------------

pub enum Conn {
    Plain(TcpStream),
    Tls(tls::TlsClient),
    H2(Box<H2Conn<tls::TlsClient>>),
}

pub struct Lane {
    pub front: Front,
    pub mode: PeerMode,
    pub target: SocketAddr,
    pub conn: Option<Conn>,
    pub truth: Option<PeerTruth>,
    pub uses_left: u32,
    /// watchdog of one exchange
    pub io_wait: Duration,
}

#[derive(Debug)]
pub enum ExchangeError {
    /// could not connect / handshake (harness or environment)
    Setup(String),
    /// sozu closed or reset before a complete response
    Closed(String),
    /// H2 stream refused (RST_STREAM / GOAWAY) with this code
    Refused(u32),
    Timeout(String),
    /// the H1 response sozu wrote cannot be parsed (raw bytes kept)
    Malformed(String, Vec<u8>),
}

pub fn ppv2_header(src: SocketAddr, dst_port: u16) -> Vec<u8> {
    let mut h = vec![0x0D, 0x0A, 0x0D, 0x0A, 0x00, 0x0D, 0x0A, 0x51, 0x55, 0x49, 0x54, 0x0A, 0x21];
    match src.ip() {
        IpAddr::V4(ip) => {
            h.push(0x11);
            h.extend_from_slice(&12u16.to_be_bytes());
            h.extend_from_slice(&ip.octets());
            h.extend_from_slice(&[192, 0, 2, 1]);
        }
        IpAddr::V6(ip) => {
            h.push(0x21);
            h.extend_from_slice(&36u16.to_be_bytes());
            h.extend_from_slice(&ip.octets());
            h.extend_from_slice(&Ipv6Addr::new(0x2001, 0xdb8, 0, 0, 0, 0, 0, 0xd57).octets());
        }
    }
    h.extend_from_slice(&src.port().to_be_bytes());
    h.extend_from_slice(&dst_port.to_be_bytes());
    h
}

pub const IO_WAIT: Duration = Duration::from_secs(15);

impl Lane {
    pub fn drop_conn(&mut self) {
        if let Some(Conn::H2(mut c)) = self.conn.take() {
            let _ = c.send_goaway(0, h2::ERR_NO_ERROR, b"");
        }
        self.conn = None;
    }

    pub fn ensure(&mut self, sni: &str) -> Result<(), ExchangeError> {
        if self.conn.is_some() {
            return Ok(());
        }
        let prog = IoProgram::fast();
        let bind = match &self.mode {
            PeerMode::V4(ip) => Some(IpAddr::V4(*ip)),
            _ => None,
        };
        let mut tcp = peers::connect(self.target, bind, &prog, Duration::from_secs(5)).map_err(|e| ExchangeError::Setup(format!("connect {}: {e}", self.target)))?;
        let local = tcp.local_addr().map_err(|e| ExchangeError::Setup(format!("{e}")))?;
        let (ip, port) = match &self.mode {
            PeerMode::Proxy(src) => {
                tcp.write_all(&ppv2_header(*src, self.target.port())).map_err(|e| ExchangeError::Setup(format!("ppv2: {e}")))?;
                (src.ip(), src.port())
            }
            _ => (local.ip(), local.port()),
        };
        self.truth = Some(PeerTruth { ip, port, listener_port: self.target.port(), mode: self.mode.name() });
        self.conn = Some(match self.front {
            Front::H1Tcp => Conn::Plain(tcp),
            Front::H1Tls => {
                let (t, _) = tls::TlsClient::handshake(tcp, sni, tls::client_config(&["http/1.1"]), IO_WAIT).map_err(|e| ExchangeError::Setup(format!("tls: {e}")))?;
                Conn::Tls(t)
            }
            Front::H2Tls => {
                let (t, info) = tls::TlsClient::handshake(tcp, sni, tls::client_config(&["h2"]), IO_WAIT).map_err(|e| ExchangeError::Setup(format!("tls: {e}")))?;
                if info.alpn.as_deref() != Some(b"h2") {
                    return Err(ExchangeError::Setup(format!("ALPN h2 not selected: {:?}", info.alpn)));
                }
                let mut c = H2Conn::new(t, h2::Role::Client);
                c.auto_ack = true;
                c.obey_windows = true;
                c.replenish = h2::Replenish::Immediately;
                c.trace_cap = 64;
                c.read_timeout = IO_WAIT;
                c.write_timeout = IO_WAIT;
                c.handshake_client(&[(h2::SET_ENABLE_PUSH, 0)]).map_err(|e| ExchangeError::Setup(format!("h2 preface: {e}")))?;
                Conn::H2(Box::new(c))
            }
        });
        Ok(())
    }

    pub fn exchange(&mut self, spec: &ReqSpec) -> Result<ObsResp, ExchangeError> {
        let r = match self.conn.as_mut() {
            None => Err(ExchangeError::Setup("no connection".into())),
            Some(Conn::Plain(s)) => {
                let _ = s.set_read_timeout(Some(self.io_wait));
                let _ = s.set_write_timeout(Some(self.io_wait));
                h1_exchange(s, &encode_h1(spec), self.io_wait)
            }
            Some(Conn::Tls(s)) => {
                s.set_timeouts(self.io_wait, self.io_wait);
                h1_exchange(s, &encode_h1(spec), self.io_wait)
            }
            Some(Conn::H2(c)) => h2_exchange(c, spec, self.io_wait),
        };
        let close = match &r {
            Err(_) => true,
            Ok(o) => !self.front.is_h2() && (values_of(&o.headers, "connection").iter().any(|v| v.eq_ignore_ascii_case(b"close")) || spec.tags.contains(&"hop:close")),
        };
        self.uses_left = self.uses_left.saturating_sub(1);
        if close || self.uses_left == 0 {
            self.drop_conn();
        }
        r
    }
}

/// the request bytes and the byte offsets at which they are cut into segments
pub fn encode_h1(spec: &ReqSpec) -> (Vec<u8>, Vec<usize>) {
    let mut out = format!("{} {} HTTP/1.1\r\n", spec.method, spec.path).into_bytes();
    let host = format!("Host: {}\r\n", spec.authority);
    if !spec.host_last {
        out.extend_from_slice(host.as_bytes());
    }
    for (n, v) in &spec.headers {
        out.extend_from_slice(n.as_bytes());
        out.extend_from_slice(b": ");
        out.extend_from_slice(v);
        out.extend_from_slice(b"\r\n");
    }
    if spec.host_last {
        out.extend_from_slice(host.as_bytes());
    }
    // regions: (start, end) byte ranges
    let mut chunk_size_line = (0usize, 0usize);
    let mut body = (0usize, 0usize);
    let mut trailer_region = (0usize, 0usize);
    let head_end;
    match &spec.body {
        Body::None => {
            out.extend_from_slice(b"\r\n");
            head_end = out.len();
        }
        Body::Length(b) => {
            out.extend_from_slice(format!("Content-Length: {}\r\n\r\n", b.len()).as_bytes());
            head_end = out.len();
            out.extend_from_slice(b);
            body = (head_end, out.len());
        }
        Body::Chunked(b, tr) => {
            out.extend_from_slice(b"Transfer-Encoding: chunked\r\n\r\n");
            head_end = out.len();
            let mut i = 0;
            while i < b.len() {
                let n = (b.len() - i).min(23);
                let line_start = out.len();
                out.extend_from_slice(format!("{n:x}\r\n").as_bytes());
                if i == 0 {
                    chunk_size_line = (line_start, out.len());
                    body.0 = out.len();
                }
                out.extend_from_slice(&b[i..i + n]);
                body.1 = out.len();
                out.extend_from_slice(b"\r\n");
                i += n;
            }
            let region_start = out.len();
            out.extend_from_slice(b"0\r\n");
            for (n, v) in tr {
                out.extend_from_slice(n.as_bytes());
                out.extend_from_slice(b": ");
                out.extend_from_slice(v);
                out.extend_from_slice(b"\r\n");
            }
            out.extend_from_slice(b"\r\n");
            trailer_region = (region_start, out.len());
        }
    }
    let inside = |(a, b): (usize, usize), pm: u16| -> Option<usize> {
        // a position strictly inside the region (both sides non-empty)
        (b > a + 1).then(|| a + 1 + (pm as usize * (b - a - 1)) / 1001)
    };
    let mut cuts: Vec<usize> = spec
        .cuts
        .iter()
        .filter_map(|c| match *c {
            Cut::InHead(pm) => inside((0, head_end), pm),
            Cut::HeadBody => Some(head_end),
            Cut::InChunkSize(pm) => inside(chunk_size_line, pm),
            Cut::InBody(pm) => inside(body, pm),
            Cut::InTrailerRegion(pm) => inside(trailer_region, pm),
        })
        .filter(|o| *o > 0 && *o < out.len())
        .collect();
    cuts.sort();
    cuts.dedup();
    (out, cuts)
}

/// pause between two segments of a request: long enough for sozu to read the first one alone
const SEGMENT_PAUSE: Duration = Duration::from_millis(3);

fn write_segmented<S: Write>(s: &mut S, req: &[u8], cuts: &[usize]) -> std::io::Result<()> {
    let mut from = 0;
    for &cut in cuts.iter().chain(std::iter::once(&req.len())) {
        if from > 0 {
            std::thread::sleep(SEGMENT_PAUSE);
        }
        s.write_all(&req[from..cut])?;
        s.flush()?;
        from = cut;
    }
    Ok(())
}

fn h1_exchange<S: Read + Write>(s: &mut S, (req, cuts): &(Vec<u8>, Vec<usize>), wait: Duration) -> Result<ObsResp, ExchangeError> {
    if let Err(e) = write_segmented(s, req, cuts) {
        // sozu may have answered and closed already: still try to read an answer
        if e.kind() == std::io::ErrorKind::WouldBlock || e.kind() == std::io::ErrorKind::TimedOut {
            return Err(ExchangeError::Timeout(format!("write: {e}")));
        }
    }
    let mut p = h1::Parser::new(h1::Kind::Response, false);
    let mut buf = vec![0u8; 32768];
    let mut head: Option<h1::Head> = None;
    let mut body = 0usize;
    let mut raw: Vec<u8> = Vec::new();
    let deadline = Instant::now() + wait;
    loop {
        if Instant::now() > deadline {
            return Err(ExchangeError::Timeout("no complete response".into()));
        }
        let n = match s.read(&mut buf) {
            Ok(0) => {
                return match p.eof() {
                    Ok(Some(h1::Event::End(tr))) if head.is_some() => {
                        let h = head.unwrap();
                        Ok(ObsResp { status: h.status().unwrap_or(0), headers: h.headers, trailers: tr, body_len: body })
                    }
                    _ => Err(ExchangeError::Closed("connection closed before a complete response".into())),
                };
            }
            Ok(n) => n,
            Err(e) if e.kind() == std::io::ErrorKind::WouldBlock || e.kind() == std::io::ErrorKind::TimedOut => {
                return Err(ExchangeError::Timeout(format!("read: {e}")));
            }
            Err(e) if e.kind() == std::io::ErrorKind::Interrupted => continue,
            Err(e) => return Err(ExchangeError::Closed(format!("read: {e}"))),
        };
        raw.extend_from_slice(&buf[..n]);
        let events = p.feed(&buf[..n]).map_err(|e| ExchangeError::Malformed(format!("unparsable response: {e}"), raw.clone()))?;
        for e in events {
            match e {
                h1::Event::Head(h) => head = Some(h),
                h1::Event::Body(b) => body += b.len(),
                h1::Event::End(tr) => {
                    let Some(h) = head.take() else { continue };
                    if (100..200).contains(&h.status().unwrap_or(0)) {
                        continue;
                    }
                    return Ok(ObsResp { status: h.status().unwrap_or(0), headers: h.headers, trailers: tr, body_len: body });
                }
            }
        }
    }
}

pub fn h2_request_list(spec: &ReqSpec) -> h2::HeaderList {
    let mut hl: h2::HeaderList = vec![
        (b":method".to_vec(), spec.method.as_bytes().to_vec()),
        (b":scheme".to_vec(), b"https".to_vec()),
        (b":authority".to_vec(), spec.authority.as_bytes().to_vec()),
        (b":path".to_vec(), spec.path.as_bytes().to_vec()),
    ];
    hl.extend(to_h2(&spec.headers));
    if let Body::Length(b) = &spec.body {
        hl.push((b"content-length".to_vec(), b.len().to_string().into_bytes()));
    }
    hl
}

fn h2_err(e: h2::H2Error) -> ExchangeError {
    match e {
        h2::H2Error::Timeout(t) => ExchangeError::Timeout(t),
        other => ExchangeError::Closed(format!("{other}")),
    }
}

fn h2_exchange(c: &mut H2Conn<tls::TlsClient>, spec: &ReqSpec, wait: Duration) -> Result<ObsResp, ExchangeError> {
    let sid = c.next_stream_id();
    let hl = h2_request_list(spec);
    match &spec.body {
        Body::None => c.send_headers(sid, &hl, true).map_err(h2_err)?,
        Body::Length(b) => {
            c.send_headers(sid, &hl, b.is_empty()).map_err(h2_err)?;
            if !b.is_empty() {
                c.send_data(sid, b, true, None).map_err(h2_err)?;
            }
        }
        Body::Chunked(b, tr) => {
            c.send_headers(sid, &hl, false).map_err(h2_err)?;
            c.send_data(sid, b, tr.is_empty(), None).map_err(h2_err)?;
            if !tr.is_empty() {
                c.send_headers(sid, &to_h2(tr), true).map_err(h2_err)?;
            }
        }
    }
    let mut obs = ObsResp::default();
    let mut got_head = false;
    let deadline = Instant::now() + wait;
    loop {
        let left = deadline.saturating_duration_since(Instant::now());
        if left.is_zero() {
            return Err(ExchangeError::Timeout("no complete h2 response".into()));
        }
        match c.poll(left.min(Duration::from_millis(500))) {
            Ok(Some(h2::Event::Headers { stream, headers, end_stream })) if stream == sid => {
                let f = to_fields(&headers);
                if !got_head {
                    let st = values_of(&f, ":status").first().and_then(|v| std::str::from_utf8(v).ok()).and_then(|s| s.parse().ok()).unwrap_or(0);
                    if (100..200).contains(&st) {
                        continue;
                    }
                    obs.status = st;
                    obs.headers = f.into_iter().filter(|(n, _)| !n.starts_with(':')).collect();
                    got_head = true;
                } else {
                    obs.trailers = f;
                }
                if end_stream {
                    return Ok(obs);
                }
            }
            Ok(Some(h2::Event::Data { stream, data, end_stream, .. })) if stream == sid => {
                obs.body_len += data.len();
                if end_stream {
                    return Ok(obs);
                }
            }
            Ok(Some(h2::Event::RstStream { stream, code })) if stream == sid => return Err(ExchangeError::Refused(code)),
            Ok(Some(h2::Event::GoAway { code, last, .. })) if last < sid => return Err(ExchangeError::Refused(code)),
            Ok(Some(h2::Event::Malformed { frame, why })) => return Err(ExchangeError::Malformed(format!("H2 client cannot interpret {}: {why}", frame.describe()), Vec::new())),
            Ok(Some(h2::Event::Closed)) => return Err(ExchangeError::Closed(format!("h2 connection closed ({:?})", c.close_kind))),
            Ok(_) => {}
            Err(e) => return Err(h2_err(e)),
        }
    }
}
