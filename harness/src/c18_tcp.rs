//! C18 — TCP relays are byte-exact and PROXY protocol headers are exact and unique.
//!
//! Worker lab. One *cell* = one sozu worker, one TCP (or HTTP, for WebSocket) listener on a
//! private loopback address, one cluster, one scripted backend; many sequential *sessions* per
//! cell (a session = one relayed connection, a scripted client and the scripted backend side).
//!
//! Oracles, all at the harness's own sockets:
//!  1. stream equality — every byte received on either side is the next byte of the peer's
//!     self-describing keystream (mismatches are localised: dropped / repeated / foreign bytes);
//!  2. end-of-stream ordering — when a side has sent N bytes and then ended its stream, the other
//!     side must have received N bytes when it observes the end-of-stream;
//!  3. PROXY protocol v2 — independent builder/parser (`pp.rs`): SEND: exactly one well-formed
//!     header with the client socket's own addresses, then the payload; EXPECT: no header byte
//!     and every payload byte at the backend, for every header shape and split position;
//!     RELAY: one header carrying the incoming addresses; malformed/oversized: nothing forwarded;
//!  4. the same stream/EOS oracles on an upgraded WebSocket pipe (`ws`), also behind an HTTP
//!     listener with `expect_proxy` (`expect_http`: PROXY header, upgrade request, raw bytes) —
//!     the same `ExpectProxyProtocol` reassembly code as the TCP listener;
//!  5. no sozu panic, no stuck event loop, session released (nb_connections back to the baseline).
//!
//! Modes that take the worker down (at this commit: TCP `expect` panics on the first connection,
//! `relay` spins forever) are probed by one cell and then skipped (`CellShared`); a relay canary
//! cell runs beside the pool so that only one worker thread is ever left spinning.
//!
//! Harness soundness notes: sessions of a cell are sequential; before each session a marker
//! connection is pushed through the backend's accept queue and after each session the monitor
//! waits for sozu's own `accept` event, so a backend connection can only belong to the current
//! session; split points wait on sozu's read counter instead of sleeping; receivers re-arm
//! TCP_QUICKACK and no socket buffer below 16 KB is used on a receive side (silly-window stalls).
//!
//! Idle-timer class (`CellKind::Paced`): eight cells (plain, send, relay, ws x download, upload) with a
//! 2 s front timeout and a 30 s back timeout run one session each in which one peer paces 3 bytes
//! every front_timeout/4 for 3-3.5 x front_timeout while the other sends nothing (in relay mode:
//! nothing but its PROXY header). Same oracle: every byte, then the end-of-stream. A cut is
//! `.../idle_timer_fired_despite_traffic` only when the scripted sender's own write timestamps show
//! that it never paused front_timeout/2 or more (else inconclusive: pacing not achieved, e.g. under
//! CPU starvation). These cells mostly sleep and are scheduled first, beside everything else.
//!
//! Attribution by observation, not by script shape:
//!  * sozu's own accounting (one QueryMetrics on the lab worker after every session): a session
//!    during which `tcp.infinite_loop.error` / `http.infinite_loop.error` moved was ended by sozu's
//!    loop-iteration guard, and whatever is missing in either direction is reported as
//!    `.../session_cut_mid_transfer`;
//!  * `.../opposite_direction_busy`: the judged sender had finished and ended its stream while, in
//!    the opposite direction, the peer had written more bytes than ever came out of sozu (byte
//!    counts of both scripted peers); the plain signature is kept for sessions whose opposite
//!    direction was delivered completely;
//!  * a session that got no backend connection is a violation only if sozu wrote nothing and did
//!    not record a failed backend connection (`backend.connections.error` / `backend.down`) in the
//!    last 40 s — sozu counts a backend that sends FIN before any byte as a failed connect and then
//!    holds the backend back (retry policy, 1..32 s): those refusals are inconclusive here.
//!
//! Debug aids: `VH_C18_TRACE=1` prints one line per session; `--opt only=<modes>`,
//! `--opt kind=random|sweep|malformed|paced`, `--opt max_cells=N`, `--opt scale=N`, `--opt max_size=N`,
//! `--opt only_session=K` (with --replay: run only session K of the replayed cells).

mod engine;
mod pp;

use std::{
    collections::BTreeSet,
    net::{IpAddr, Ipv4Addr, Ipv6Addr, SocketAddr},
    sync::{
        Arc, Mutex,
        atomic::{AtomicBool, AtomicU64, Ordering},
        mpsc::{Receiver as MpscReceiver, Sender, channel},
    },
    time::{Duration, Instant},
};

use engine::{End, Preamble, Role, Shared, Side, SideReport, Strip, StripMode};
use serde_json::{Value, json};
use sozu_command_lib::proto::command::{
    Cluster, ProxyProtocolConfig, QueryMetricsOptions, ResponseContent, filtered_metrics::Inner, request::RequestType,
    response_content::ContentType,
};

use crate::{
    common::{Ctx, Report, Rng, par_cases_named},
    lab::{self, Worker, WorkerOpts},
    peers::{self, BackendServer, IoProgram},
};

const STREAM: u64 = 0xC18;
const WS_HOST: &str = "ws.c18.test";

#[derive(Clone, Copy, Debug, PartialEq, Eq, Hash, PartialOrd, Ord)]
enum Mode {
    Plain,
    Send,
    Expect,
    Relay,
    Ws,
    /// HTTP listener with `expect_proxy`: PROXY header, then a WebSocket upgrade, then raw bytes
    ExpectWs,
}

impl Mode {
    fn name(self) -> &'static str {
        match self {
            Mode::Plain => "plain",
            Mode::Send => "send",
            Mode::Expect => "expect",
            Mode::Relay => "relay",
            Mode::Ws => "ws",
            Mode::ExpectWs => "expect_http",
        }
    }
    fn is_ws(self) -> bool {
        matches!(self, Mode::Ws | Mode::ExpectWs)
    }
    /// prefix of stream-level signatures
    fn stream_prefix(self) -> &'static str {
        if self.is_ws() { "ws" } else { "tcp" }
    }
    fn incoming_header(self) -> bool {
        matches!(self, Mode::Expect | Mode::Relay | Mode::ExpectWs)
    }
}

#[derive(Clone, Copy, Debug, PartialEq, Eq)]
enum Who {
    Client,
    Backend,
}

#[derive(Clone, Debug, PartialEq, Eq)]
enum Script {
    /// both send; `first` closes once it has sent and received everything, the other closes
    /// after seeing that end-of-stream
    Exchange { first: Who },
    /// `first` sends everything, shuts its write side down and reads until end-of-stream; the
    /// other reads until end-of-stream (sending concurrently, or only afterwards when `late`)
    HalfClose { first: Who, late: bool },
    /// `who` resets the connection after `after` bytes
    Rst { who: Who, after: u64 },
}

impl Script {
    fn name(&self) -> String {
        match self {
            Script::Exchange { first } => format!("exchange/{first:?}_closes_first"),
            Script::HalfClose { first, late } => format!("halfclose/{first:?}/{}", if *late { "reverse_after" } else { "reverse_concurrent" }),
            Script::Rst { who, .. } => format!("rst/{who:?}"),
        }
    }
}

#[derive(Clone, Debug, PartialEq, Eq)]
enum HdrVerdict {
    /// must be accepted: no header byte forwarded (expect) / one equal header (relay), full payload
    Valid,
    /// the specification lets a receiver accept or reject it (unparsable TLV padding)
    Lenient,
    /// must close the session with nothing forwarded
    Malformed,
    Oversized,
}

#[derive(Clone, Debug)]
struct HdrSpec {
    class: String,
    bytes: Vec<u8>,
    verdict: HdrVerdict,
    parsed: Option<pp::Header>,
    /// the client ends its stream right after these (truncated) bytes
    truncated: bool,
}

impl HdrSpec {
    /// class of the header as used in signatures (the exact class goes into witnesses and evidence)
    fn coarse(&self) -> String {
        match &self.parsed {
            Some(h) => match (h.family(), h.command()) {
                (0, 0) => "local_unspec".to_owned(),
                (0, _) => "proxy_unspec".to_owned(),
                (3, _) => "unix_family".to_owned(),
                _ if h.tail.is_empty() => "inet".to_owned(),
                _ => "inet_with_tlv".to_owned(),
            },
            None => self.class.clone(),
        }
    }
}

#[derive(Clone, Debug)]
struct SessionSpec {
    k: u64,
    c2b: u64,
    b2c: u64,
    script: Script,
    cprog: IoProgram,
    bprog: IoProgram,
    src_ip: Option<Ipv4Addr>,
    hdr: Option<HdrSpec>,
    split: Option<usize>,
    joined: usize,
    /// sweep sessions: the backend answers only once it has seen the first payload byte
    backend_holds: bool,
    /// WebSocket: cut inside the upgrade request; first backend bytes sharing the segment of the 101
    request_cut: Option<usize>,
    ws_joined: usize,
    /// paced session: the listener's front timeout (ms) the stream must outlast
    paced_front_timeout_ms: Option<u64>,
}

impl SessionSpec {
    fn json(&self) -> Value {
        json!({
            "session": self.k, "client_to_backend_bytes": self.c2b, "backend_to_client_bytes": self.b2c,
            "script": self.script.name(), "script_detail": format!("{:?}", self.script),
            "client_io": self.cprog.describe(), "backend_io": self.bprog.describe(),
            "client_source_ip": self.src_ip.map(|i| i.to_string()),
            "header": self.hdr.as_ref().map(|h| json!({"class": h.class, "hex": hex::encode(&h.bytes[..h.bytes.len().min(300)]), "len": h.bytes.len(),
                "verdict": format!("{:?}", h.verdict), "truncated_then_fin": h.truncated})),
            "header_split_at": self.split, "payload_bytes_joined_to_header": self.joined,
            "upgrade_request_cut_at": self.request_cut, "backend_bytes_joined_to_101": self.ws_joined,
            "paced_against_front_timeout_ms": self.paced_front_timeout_ms,
        })
    }
}

#[derive(Clone, Debug)]
enum CellKind {
    Random,
    /// header variant `variant`, split positions from..to, with and without joined payload
    Sweep { variant: usize, from: usize, to: usize },
    Malformed,
    /// one slowly paced one-directional stream that outlasts the listener's front timeout
    Paced { download: bool },
}

#[derive(Clone, Debug)]
struct CellSpec {
    idx: u64,
    mode: Mode,
    kind: CellKind,
    buffer_size: u64,
    knobs: Vec<(String, i64)>,
    backend_rcvbuf: usize,
    ipv6: bool,
    n_sessions: u64,
    max_size: u64,
    front_timeout: u32,
    back_timeout: u32,
    /// first cell of a mode suspected to take the worker down; the others wait for its verdict
    canary: bool,
}

impl CellSpec {
    fn json(&self) -> Value {
        json!({"cell": self.idx, "mode": self.mode.name(), "kind": format!("{:?}", self.kind), "buffer_size": self.buffer_size,
            "knobs": self.knobs, "backend_rcvbuf": self.backend_rcvbuf, "ipv6": self.ipv6, "front_timeout": self.front_timeout, "back_timeout": self.back_timeout})
    }
}

// ------------------------------------------------------------------------------------------
// header variants
// ------------------------------------------------------------------------------------------

fn v4(src: &str, dst: &str) -> pp::Addr {
    pp::Addr::V4(src.parse().unwrap(), dst.parse().unwrap())
}
fn v6(src: &str, dst: &str) -> pp::Addr {
    pp::Addr::V6(src.parse().unwrap(), dst.parse().unwrap())
}

fn valid(class: &str, h: pp::Header, verdict: HdrVerdict) -> HdrSpec {
    // proxy-protocol.txt 2.2: a LOCAL header "must" be accepted; with the UNSPEC family (and with any
    // family the receiver does not implement, which "falls back to the UNSPEC mode") "the receiver is
    // free to accept the connection anyway and use the real endpoint addresses or to reject it".
    // sozu implements INET and INET6: PROXY+UNSPEC and UNIX headers may be refused (cleanly).
    let optional = (h.family() == 0 && h.command() == 1) || h.family() == 3;
    let verdict = if optional { HdrVerdict::Lenient } else { verdict };
    HdrSpec { class: class.to_owned(), bytes: h.encode(), verdict, parsed: Some(h), truncated: false }
}

fn unix_addr() -> pp::Addr {
    pp::Addr::Unix(b"/run/c18/client.sock".to_vec(), b"/run/c18/listener.sock".to_vec())
}

/// the valid shapes of the exhaustive split sweep
fn sweep_variants() -> Vec<HdrSpec> {
    let a4 = v4("203.0.113.7:40001", "198.51.100.9:443");
    let a6 = v6("[2001:db8::7]:40002", "[2001:db8:1::9]:8443");
    vec![
        valid("proxy_tcp4", pp::Header { ver_cmd: 0x21, fam_proto: 0x11, addr: a4.clone(), tail: vec![] }, HdrVerdict::Valid),
        valid("proxy_tcp6", pp::Header { ver_cmd: 0x21, fam_proto: 0x21, addr: a6.clone(), tail: vec![] }, HdrVerdict::Valid),
        valid("local_unspec", pp::Header { ver_cmd: 0x20, fam_proto: 0x00, addr: pp::Addr::None, tail: vec![] }, HdrVerdict::Valid),
        valid("proxy_unspec_tlv", pp::Header { ver_cmd: 0x21, fam_proto: 0x00, addr: pp::Addr::None, tail: pp::tlv_tail(12) }, HdrVerdict::Valid),
        valid("proxy_tcp4_tlv", pp::Header { ver_cmd: 0x21, fam_proto: 0x11, addr: a4.clone(), tail: pp::tlv_tail(12) }, HdrVerdict::Valid),
        valid("proxy_tcp6_tlv", pp::Header { ver_cmd: 0x21, fam_proto: 0x21, addr: a6.clone(), tail: pp::tlv_tail(24) }, HdrVerdict::Valid),
        valid("local_tcp4", pp::Header { ver_cmd: 0x20, fam_proto: 0x11, addr: a4.clone(), tail: vec![] }, HdrVerdict::Valid),
        valid("proxy_unix", pp::Header { ver_cmd: 0x21, fam_proto: 0x31, addr: unix_addr(), tail: vec![] }, HdrVerdict::Valid),
        valid("proxy_tcp4_tlv_max", pp::Header { ver_cmd: 0x21, fam_proto: 0x11, addr: a4.clone(), tail: pp::tlv_tail(204) }, HdrVerdict::Valid),
        valid("proxy_tcp4_pad1", pp::Header { ver_cmd: 0x21, fam_proto: 0x11, addr: a4, tail: pp::tlv_tail(1) }, HdrVerdict::Lenient),
    ]
}

const RELAY_SWEEP: &[usize] = &[0, 1, 2, 4];

/// a random valid header (random addresses, families, commands, TLV tails 0,1,12,24,...,max)
fn random_valid_header(rng: &mut Rng) -> HdrSpec {
    let a4 = pp::Addr::V4(
        std::net::SocketAddrV4::new(Ipv4Addr::from(rng.next_u64() as u32), rng.range(1, 65535) as u16),
        std::net::SocketAddrV4::new(Ipv4Addr::from(rng.next_u64() as u32), rng.range(1, 65535) as u16),
    );
    let mut o = [0u8; 16];
    o.copy_from_slice(&rng.bytes(16));
    let mut p = [0u8; 16];
    p.copy_from_slice(&rng.bytes(16));
    let a6 = pp::Addr::V6(
        std::net::SocketAddrV6::new(Ipv6Addr::from(o), rng.range(1, 65535) as u16, 0, 0),
        std::net::SocketAddrV6::new(Ipv6Addr::from(p), rng.range(1, 65535) as u16, 0, 0),
    );
    let tails = [0usize, 0, 0, 1, 2, 3, 12, 24, 36, 100, usize::MAX];
    let t = *rng.pick(&tails);
    let tail = |block: usize| -> Vec<u8> { pp::tlv_tail(if t == usize::MAX { 216 - block } else { t.min(216 - block) }) };
    let (class, h) = match rng.below(12) {
        0..=2 => ("proxy_tcp4", pp::Header { ver_cmd: 0x21, fam_proto: 0x11, addr: a4, tail: tail(12) }),
        3..=4 => ("proxy_tcp6", pp::Header { ver_cmd: 0x21, fam_proto: 0x21, addr: a6, tail: tail(36) }),
        5..=6 => ("local_unspec", pp::Header { ver_cmd: 0x20, fam_proto: 0x00, addr: pp::Addr::None, tail: tail(0) }),
        7 => ("proxy_unspec", pp::Header { ver_cmd: 0x21, fam_proto: 0x00, addr: pp::Addr::None, tail: tail(0) }),
        8 => ("local_tcp4", pp::Header { ver_cmd: 0x20, fam_proto: 0x11, addr: a4, tail: tail(12) }),
        9 => ("proxy_udp4", pp::Header { ver_cmd: 0x21, fam_proto: 0x12, addr: a4, tail: tail(12) }),
        10 => ("local_tcp6", pp::Header { ver_cmd: 0x20, fam_proto: 0x21, addr: a6, tail: tail(36) }),
        _ => ("proxy_unix", pp::Header { ver_cmd: 0x21, fam_proto: 0x31, addr: unix_addr(), tail: vec![] }),
    };
    let padded = !h.tail.is_empty() && !pp::tlvs_well_formed(&h.tail);
    let class = if padded {
        format!("{class}_pad{}", h.tail.len())
    } else if h.tail.is_empty() {
        class.to_owned()
    } else {
        format!("{class}_tlv")
    };
    valid(&class, h, if padded { HdrVerdict::Lenient } else { HdrVerdict::Valid })
}

/// headers that must close the session with nothing forwarded
fn malformed_headers() -> Vec<HdrSpec> {
    let good = pp::Header { ver_cmd: 0x21, fam_proto: 0x11, addr: v4("203.0.113.7:40001", "198.51.100.9:443"), tail: vec![] };
    let gb = good.encode();
    let block = good.addr.block();
    let mut out = Vec::new();
    let mut bad = |class: &str, bytes: Vec<u8>, verdict: HdrVerdict, truncated: bool| {
        out.push(HdrSpec { class: class.to_owned(), bytes, verdict, parsed: None, truncated });
    };
    for p in 0..12 {
        let mut b = gb.clone();
        b[p] ^= if p % 2 == 0 { 0x01 } else { 0x80 };
        bad("bad_signature", b, HdrVerdict::Malformed, false);
    }
    for vc in [0x11u8, 0x31, 0x01, 0xF1] {
        bad("bad_version", pp::encode_raw(vc, 0x11, 12, &block), HdrVerdict::Malformed, false);
    }
    for vc in [0x22u8, 0x2F] {
        bad("bad_command", pp::encode_raw(vc, 0x11, 12, &block), HdrVerdict::Malformed, false);
    }
    for fp in [0x41u8, 0xF1] {
        bad("bad_family", pp::encode_raw(0x21, fp, 12, &block), HdrVerdict::Malformed, false);
    }
    for fp in [0x13u8, 0x1F] {
        bad("bad_transport", pp::encode_raw(0x21, fp, 12, &block), HdrVerdict::Malformed, false);
    }
    // declared length too short for the declared family
    bad("short_length_tcp4", pp::encode_raw(0x21, 0x11, 8, &block[..8]), HdrVerdict::Malformed, false);
    bad("short_length_tcp6", pp::encode_raw(0x21, 0x21, 12, &block), HdrVerdict::Malformed, false);
    // longer than the 16 + 216 bytes sozu accepts (expect.rs: "exceeds maximum size (232 bytes)")
    for len in [217usize, 300, 1000, 65535] {
        let mut body = block.clone();
        body.extend_from_slice(&pp::tlv_tail(len - 12));
        bad("oversized", pp::encode_raw(0x21, 0x11, len as u16, &body), HdrVerdict::Oversized, false);
    }
    let mut body = Vec::new();
    body.extend_from_slice(&pp::tlv_tail(217));
    bad("oversized_unspec", pp::encode_raw(0x20, 0x00, 217, &body), HdrVerdict::Oversized, false);
    for cut in [1usize, 11, 12, 13, 15, 16, 20, 27] {
        bad("truncated_then_fin", gb[..cut].to_vec(), HdrVerdict::Malformed, true);
    }
    out
}

// ------------------------------------------------------------------------------------------
// generators
// ------------------------------------------------------------------------------------------

fn gen_size(rng: &mut Rng, bs: u64, max: u64) -> u64 {
    let pm = |rng: &mut Rng, c: u64, ds: &[i64]| -> u64 { (c as i64 + *rng.pick(ds)).max(0) as u64 };
    let s = match rng.below(100) {
        0..=4 => 0,
        5..=8 => 1,
        9..=26 => pm(rng, bs, &[-2, -1, 0, 1, 2]),
        27..=36 => pm(rng, 16384, &[-9, -1, 0, 1, 9]),
        37..=46 => pm(rng, 65535, &[-1, 0, 1]),
        47..=74 => {
            let n = rng.range(1, 17);
            pm(rng, 1 << n, &[-1, 0, 1])
        }
        75..=91 => {
            let bits = rng.range(1, 18);
            rng.below(1 << bits)
        }
        92..=96 => {
            let n = rng.range(18, 21);
            pm(rng, 1 << n, &[-1, 1])
        }
        _ => pm(rng, max, &[-1, 0]),
    };
    s.min(max)
}

fn size_bucket(n: u64) -> &'static str {
    match n {
        0 => "0",
        1 => "1",
        2..=1023 => "2..1K",
        1024..=16383 => "1K..16K",
        16384..=65535 => "16K..64K",
        65536..=1048575 => "64K..1M",
        1048576..=8388607 => "1M..8M",
        _ => ">=8M",
    }
}

/// an I/O program whose deliberate pauses stay below ~0.3 s for the given volumes
fn gen_prog(rng: &mut Rng, send: u64, recv: u64) -> IoProgram {
    let mut p = IoProgram::fast();
    let seg = match rng.below(12) {
        0..=5 => 0,
        6 => 1,
        7 => 7,
        8 => 100,
        9 => 1460,
        10 => 4096,
        _ => *rng.pick(&[16383usize, 16384, 16385]),
    };
    if seg > 0 && send / (seg as u64) <= 3000 {
        p.write_seg = seg;
        let segs = send / seg as u64 + 1;
        p.write_pause_us = if segs <= 100 { *rng.pick(&[0u64, 100, 1000, 2500]) } else if segs <= 1500 { *rng.pick(&[0u64, 50, 150]) } else { 0 };
    }
    let (chunk, pause) = match rng.below(12) {
        0..=5 => (0usize, 0u64),
        6 => (1, 0),
        7 => (100, *rng.pick(&[0u64, 100])),
        8 => (4096, 200),
        9 => (1024, 1000),
        10 => (16384, 500),
        _ => (3000, 0),
    };
    if chunk > 0 {
        let reads = recv / chunk as u64 + 1;
        if reads <= 4000 && reads * pause <= 300_000 {
            p.read_chunk = chunk;
            p.read_pause_us = pause;
        }
    }
    // a small receive buffer on loopback (64 KB segments) makes the kernel advertise zero windows
    // and fall back on the persist timer: keep it for volumes that still finish quickly
    p.rcvbuf = if recv <= 300_000 { *rng.pick(&[0usize, 0, 0, 16384, 32768]) } else { 0 };
    p.sndbuf = if send <= 100_000 { *rng.pick(&[0usize, 0, 0, 0, 8192]) } else { 0 };
    p
}

fn gen_script(rng: &mut Rng, c2b: u64, b2c: u64) -> Script {
    let who = |rng: &mut Rng| if rng.bool() { Who::Client } else { Who::Backend };
    match rng.below(20) {
        0..=8 => Script::Exchange { first: who(rng) },
        9..=16 => Script::HalfClose { first: who(rng), late: rng.chance(1, 3) },
        _ => {
            let w = who(rng);
            let len = if w == Who::Client { c2b } else { b2c };
            Script::Rst { who: w, after: if len == 0 { 0 } else { rng.below(len + 1) } }
        }
    }
}

fn gen_session(cell: &CellSpec, seed: u64, k: u64, sweep: &[HdrSpec], malformed: &[HdrSpec]) -> SessionSpec {
    let mut rng = Rng::for_case(seed, STREAM + cell.idx, k);
    let src_ip = if cell.ipv6 || rng.chance(1, 4) {
        None
    } else {
        Some(Ipv4Addr::new(127, rng.range(1, 250) as u8, rng.range(0, 255) as u8, rng.range(1, 254) as u8))
    };
    match &cell.kind {
        CellKind::Sweep { variant, from, .. } => {
            let pos = from + (k / 2) as usize;
            let joined = k % 2 == 0;
            SessionSpec {
                k,
                c2b: 300,
                b2c: 24,
                script: Script::Exchange { first: if (k / 2) % 2 == 0 { Who::Client } else { Who::Backend } },
                cprog: IoProgram::fast(),
                bprog: IoProgram::fast(),
                src_ip,
                hdr: Some(sweep[*variant].clone()),
                split: if pos == 0 { None } else { Some(pos) },
                joined: if joined { 300 } else { 0 },
                backend_holds: true,
                request_cut: None,
                ws_joined: 0,
                paced_front_timeout_ms: None,
            }
        }
        CellKind::Paced { download } => {
            // 3 bytes every front_timeout/4, for 3 to 3.5 x front_timeout; the other peer sends nothing
            // (in relay mode: nothing but its PROXY header, at once)
            let ft_ms = cell.front_timeout as u64 * 1000;
            let paced = IoProgram { write_seg: 3, write_pause_us: ft_ms * 1000 / 4, ..IoProgram::fast() };
            let len = 3 * (13 + rng.below(3));
            SessionSpec {
                k,
                c2b: if *download { 0 } else { len },
                b2c: if *download { len } else { 0 },
                script: Script::HalfClose { first: if *download { Who::Backend } else { Who::Client }, late: false },
                cprog: if *download { IoProgram::fast() } else { paced.clone() },
                bprog: if *download { paced } else { IoProgram::fast() },
                src_ip,
                hdr: if cell.mode == Mode::Relay { Some(sweep[0].clone()) } else { None },
                split: None,
                joined: 0,
                backend_holds: false,
                request_cut: None,
                ws_joined: 0,
                paced_front_timeout_ms: Some(ft_ms),
            }
        }
        CellKind::Malformed => {
            let h = malformed[(k / 2) as usize % malformed.len()].clone();
            let joined = k % 2 == 0;
            let truncated = h.truncated;
            SessionSpec {
                k,
                c2b: if truncated { 0 } else { 300 },
                b2c: 0,
                script: Script::HalfClose { first: Who::Client, late: false },
                cprog: IoProgram::fast(),
                bprog: IoProgram::fast(),
                src_ip,
                split: if !truncated && h.bytes.len() > 20 && rng.chance(1, 3) { Some(rng.urange(1, 19)) } else { None },
                hdr: Some(h),
                joined: if joined && !truncated { 300 } else { 0 },
                backend_holds: false,
                request_cut: None,
                ws_joined: 0,
                paced_front_timeout_ms: None,
            }
        }
        CellKind::Random => {
            let pressure = !cell.mode.is_ws() && rng.chance(1, 8);
            let (mut c2b, mut b2c) = (gen_size(&mut rng, cell.buffer_size, cell.max_size), gen_size(&mut rng, cell.buffer_size, cell.max_size));
            // keep the volume of a cell bounded: at most one large direction per session
            if c2b > (1 << 20) && b2c > (1 << 20) {
                if rng.bool() { c2b %= 1 << 16 } else { b2c %= 1 << 16 }
            }
            let mut cprog = gen_prog(&mut rng, c2b, b2c);
            let mut bprog = gen_prog(&mut rng, b2c, c2b);
            if pressure {
                // one-directional bulk against a slow reader with a small receive buffer: sozu's
                // writes towards that reader must really hit EAGAIN
                let vol = *rng.pick(&[100_000u64, 200_000, 300_001]);
                let slow = IoProgram { read_chunk: 8192, read_pause_us: 300, rcvbuf: 16384, ..IoProgram::fast() };
                if rng.bool() {
                    c2b = vol;
                    b2c = 0;
                    bprog = slow;
                    cprog = IoProgram::fast();
                } else {
                    b2c = vol;
                    c2b = 0;
                    cprog = slow;
                    bprog = IoProgram::fast();
                }
            }
            // (the receiver of the bulk closes first, once it has everything)
            let script = if pressure { Script::Exchange { first: if c2b > 0 { Who::Backend } else { Who::Client } } } else { gen_script(&mut rng, c2b, b2c) };
            let hdr = if cell.mode.incoming_header() { Some(random_valid_header(&mut rng)) } else { None };
            let (split, joined) = match &hdr {
                Some(h) => {
                    let split = if rng.chance(1, 2) { Some(rng.urange(1, h.bytes.len() - 1)) } else { None };
                    let joined = match rng.below(4) {
                        0 => 0,
                        1 => c2b.min(1 << 16) as usize,
                        2 => rng.below(c2b.min(400) + 1) as usize,
                        _ => c2b.min(300) as usize,
                    };
                    (split, joined)
                }
                None => (None, 0),
            };
            let (request_cut, ws_joined) = if cell.mode.is_ws() {
                // backend bytes sharing the segment of the 101: only with scripts in which the backend ends
                // the session itself, so that a loss shows as an early end-of-stream and not as a 20 s stall
                let backend_ends = matches!(script, Script::Exchange { first: Who::Backend } | Script::HalfClose { first: Who::Backend, .. });
                (if rng.chance(1, 3) { Some(rng.urange(1, 60)) } else { None }, if backend_ends && rng.chance(1, 2) { b2c.min(1 + rng.below(2000)) as usize } else { 0 })
            } else {
                (None, 0)
            };
            SessionSpec { k, c2b, b2c, script, cprog, bprog, src_ip, hdr, split, joined, backend_holds: false, request_cut, ws_joined, paced_front_timeout_ms: None }
        }
    }
}

// ------------------------------------------------------------------------------------------
// cell environment
// ------------------------------------------------------------------------------------------

/// Connections accepted by the scripted backend, handed out strictly in accept order: the backend
/// server runs one thread per connection, so arrival order on the channel is not accept order.
struct AcceptQueue {
    rx: MpscReceiver<(usize, std::net::TcpStream)>,
    next: std::cell::Cell<usize>,
    pending: std::cell::RefCell<std::collections::BTreeMap<usize, std::net::TcpStream>>,
}

impl AcceptQueue {
    fn recv_timeout(&self, wait: Duration) -> Result<std::net::TcpStream, ()> {
        let start = Instant::now();
        loop {
            let next = self.next.get();
            if let Some(s) = self.pending.borrow_mut().remove(&next) {
                self.next.set(next + 1);
                return Ok(s);
            }
            // an index whose handler thread never delivered (spawn failure): do not wait for ever
            if start.elapsed() > Duration::from_secs(2) {
                if let Some(first) = self.pending.borrow().keys().next().copied() {
                    self.next.set(first);
                    continue;
                }
            }
            let left = wait.checked_sub(start.elapsed()).unwrap_or(Duration::ZERO);
            if left.is_zero() && start.elapsed() <= Duration::from_secs(2) && self.pending.borrow().is_empty() {
                return Err(());
            }
            match self.rx.recv_timeout(left.max(Duration::from_millis(1))) {
                Ok((i, s)) => {
                    self.pending.borrow_mut().insert(i, s);
                }
                Err(_) if self.pending.borrow().is_empty() || start.elapsed() > Duration::from_secs(3) => return Err(()),
                Err(_) => {}
            }
        }
    }
    fn try_recv(&self) -> Result<std::net::TcpStream, ()> {
        self.recv_timeout(Duration::ZERO)
    }
}

struct Env<'a> {
    cell: &'a CellSpec,
    front: SocketAddr,
    back: SocketAddr,
    probe: Arc<sozu_lib::verif::Probe>,
    accept_rx: &'a AcceptQueue,
    baseline_connections: usize,
    idle_limit: Duration,
    /// (keystream id client->backend, client socket address) of the earlier sessions of this cell
    prior: std::cell::RefCell<Vec<(u64, Option<SocketAddr>)>>,
}

fn accept_count(p: &sozu_lib::verif::Probe) -> usize {
    p.events.lock().unwrap_or_else(|e| e.into_inner()).iter().filter(|e| e.kind == "accept").count()
}

/// The kernel completes the handshake before sozu accepts the connection: a client that is quick
/// to leave can be over before sozu has even created the session, and `nb_connections` then reads
/// "released" too early. Wait until sozu has accepted `n` connections and published a snapshot.
fn wait_accepted(p: &sozu_lib::verif::Probe, n: usize, limit: Duration) -> bool {
    let start = Instant::now();
    while accept_count(p) < n {
        if start.elapsed() > limit {
            return false;
        }
        std::thread::sleep(Duration::from_micros(200));
    }
    // the accept may belong to the iteration in progress: let that iteration publish its snapshot
    let seen = p.snapshot().iteration;
    let t = Instant::now();
    while p.snapshot().iteration == seen && t.elapsed() < Duration::from_millis(20) {
        std::thread::sleep(Duration::from_micros(200));
    }
    true
}

/// sozu's own accounting, read with one QueryMetrics command on the lab worker:
/// * sessions ended through the loop-iteration guard: `tcp.infinite_loop.error`
///   (TcpSession::ready_inner) + `http.infinite_loop.error` (Pipe::ready of an upgraded WebSocket);
/// * failed connections to the cell's backend: `backend.connections.error` + `backend.down` (sozu
///   counts a backend that sends FIN before any byte as a failed connect, tcp.rs test_back_socket,
///   and then holds the backend back for 1..32 s: retry policy).
fn sozu_accounting(w: &mut Worker) -> Option<(i64, i64)> {
    let guard = ["tcp.infinite_loop.error", "http.infinite_loop.error"];
    let fail = ["backend.connections.error", "backend.down"];
    let r = w
        .call(
            RequestType::QueryMetrics(QueryMetricsOptions {
                list: false,
                cluster_ids: vec![],
                backend_ids: vec![],
                metric_names: guard.iter().chain(fail.iter()).map(|n| (*n).to_owned()).collect(),
                no_clusters: false,
                workers: false,
            }),
            Duration::from_secs(3),
        )
        .ok()?;
    let count = |m: &std::collections::BTreeMap<String, sozu_command_lib::proto::command::FilteredMetrics>, names: &[&str]| -> i64 {
        names.iter().map(|n| match m.get(*n).and_then(|f| f.inner.as_ref()) { Some(Inner::Count(v)) => *v, _ => 0 }).sum()
    };
    match r.content {
        Some(ResponseContent { content_type: Some(ContentType::WorkerMetrics(m)) }) => Some((
            count(&m.proxy, &guard),
            count(&m.proxy, &fail)
                + m.clusters.values().map(|c| count(&c.cluster, &fail) + c.backends.iter().map(|b| count(&b.metrics, &fail)).sum::<i64>()).sum::<i64>(),
        )),
        _ => None,
    }
}

fn read_bytes_counter(p: &sozu_lib::verif::Probe) -> u64 {
    p.counter("io.tcp.read.bytes") + p.counter("io.session_tcp.read.bytes")
}

/// sozu's side of a session for which the scripted backend saw no connection
#[derive(Clone, Debug)]
struct NoBackend {
    /// bytes sozu wrote to sockets during the session (hook counter `io.*.write.bytes`)
    sozu_wrote: u64,
    /// connections the scripted backend accepted during the session, markers included
    backend_accepted: usize,
    /// sozu recorded a failed connection to its backend less than 40 s ago (its retry policy holds
    /// the backend back for up to 32 s); None: the metrics query failed
    backend_held_back: Option<bool>,
}

struct Ran {
    client: Option<SideReport>,
    backend: Option<SideReport>,
    timed_out: bool,
    /// the worker stopped answering commands while the session was stuck
    wedged: bool,
    /// sozu's own loop-iteration guard fired during this session (its `*.infinite_loop.error` counters moved)
    cut_by_loop_guard: bool,
    /// only when no backend connection reached the session: what sozu itself did
    no_backend: Option<NoBackend>,
    connect_error: Option<String>,
    wall: Duration,
    /// backend connections of earlier sessions discarded before this one started
    stale_backend_connections: u64,
}

const WS_REQUEST_LINE: &str = "GET /chat HTTP/1.1\r\n";
const WS_TOKEN: &str = "X-C18-Token: 5f1d7c9a3b2e4f60";

fn ws_request() -> Vec<u8> {
    format!(
        "{WS_REQUEST_LINE}Host: {WS_HOST}\r\nUpgrade: websocket\r\nConnection: Upgrade\r\n{WS_TOKEN}\r\nSec-WebSocket-Key: dGhlIHNhbXBsZSBub25jZQ==\r\nSec-WebSocket-Version: 13\r\n\r\n"
    )
    .into_bytes()
}

fn ws_response() -> Vec<u8> {
    b"HTTP/1.1 101 Switching Protocols\r\nUpgrade: websocket\r\nConnection: Upgrade\r\nSec-WebSocket-Accept: s3pPLMBiTxaQ9kYGzzhZRbK+xOo=\r\n\r\n".to_vec()
}

fn build_sides(env: &Env, spec: &SessionSpec, session_uid: u64) -> (Side, Side) {
    let mode = env.cell.mode;
    let c2b_id = session_uid.wrapping_mul(2).wrapping_add(1);
    let b2c_id = session_uid.wrapping_mul(2).wrapping_add(2);
    let (crole, brole) = match &spec.script {
        Script::Exchange { first: Who::Client } => (Role::First { half: false }, Role::Other { late: false }),
        Script::Exchange { first: Who::Backend } => (Role::Other { late: false }, Role::First { half: false }),
        Script::HalfClose { first: Who::Client, late } => (Role::First { half: true }, Role::Other { late: *late }),
        Script::HalfClose { first: Who::Backend, late } => (Role::Other { late: *late }, Role::First { half: true }),
        Script::Rst { who: Who::Client, after } => (Role::Rst { after: *after }, Role::Other { late: false }),
        Script::Rst { who: Who::Backend, after } => (Role::Other { late: false }, Role::Rst { after: *after }),
    };
    let probe = Some(env.probe.clone());
    let base = Some(read_bytes_counter(&env.probe));
    let mut client = Side {
        name: "client",
        send_id: c2b_id,
        send_len: spec.c2b,
        recv_id: b2c_id,
        recv_expect: spec.b2c,
        prog: spec.cprog.clone(),
        role: crole,
        strip: StripMode::None,
        preamble: Preamble::default(),
        hold_until_first_byte: false,
        wait_handshake_before_preamble: false,
        wait_handshake_after_preamble: false,
    };
    let mut backend = Side {
        name: "backend",
        send_id: b2c_id,
        send_len: spec.b2c,
        recv_id: c2b_id,
        recv_expect: spec.c2b,
        prog: spec.bprog.clone(),
        role: brole,
        strip: StripMode::None,
        preamble: Preamble::default(),
        hold_until_first_byte: spec.backend_holds,
        wait_handshake_before_preamble: false,
        wait_handshake_after_preamble: false,
    };
    match mode {
        Mode::Plain => {}
        Mode::Send => backend.strip = StripMode::Pp,
        Mode::Expect | Mode::Relay => {
            if let Some(h) = &spec.hdr {
                client.preamble = Preamble { bytes: h.bytes.clone(), cuts: spec.split.into_iter().collect(), joined: spec.joined, probe, base };
            }
            if mode == Mode::Relay {
                backend.strip = StripMode::Pp;
            }
        }
        Mode::Ws | Mode::ExpectWs => {
            let mut bytes = Vec::new();
            let mut truncated = false;
            let mut cuts: Vec<usize> = spec.split.into_iter().collect();
            if let (Mode::ExpectWs, Some(h)) = (mode, &spec.hdr) {
                bytes.extend_from_slice(&h.bytes);
                if spec.joined == 0 && !h.truncated {
                    // the request travels in its own segment, once sozu has consumed the header
                    cuts.push(h.bytes.len());
                }
                if h.truncated {
                    client.send_len = 0;
                    truncated = true;
                }
            }
            if !spec.hdr.as_ref().is_some_and(|h| h.truncated) {
                bytes.extend_from_slice(&ws_request());
            }
            if let Some(c) = spec.request_cut {
                cuts.push(bytes.len() - ws_request().len() + c);
            }
            cuts.sort_unstable();
            client.preamble = Preamble { bytes, cuts, joined: 0, probe: probe.clone(), base };
            client.strip = StripMode::HttpHead;
            client.wait_handshake_after_preamble = !truncated;
            backend.strip = StripMode::HttpHead;
            backend.wait_handshake_before_preamble = true;
            // not joined: the first backend bytes leave once sozu has read the 101 (a read of their own)
            backend.preamble = Preamble { bytes: ws_response(), cuts: vec![], joined: spec.ws_joined, probe, base: None };
        }
    }
    (client, backend)
}

static SESSION_UID: AtomicU64 = AtomicU64::new(1);

fn run_session(env: &Env, spec: &SessionSpec, w: &mut Worker) -> Ran {
    let started = Instant::now();
    // Connections sozu opened for an earlier session may still sit in the backend's accept queue.
    // The queue is FIFO: push a marker connection of our own through it and discard everything
    // that comes out before the marker.
    let mut stale = 0u64;
    match std::net::TcpStream::connect_timeout(&env.back, Duration::from_secs(2)) {
        Ok(marker) => {
            let me = marker.local_addr().ok();
            let limit = Instant::now() + Duration::from_secs(5);
            loop {
                match env.accept_rx.recv_timeout(Duration::from_millis(50)) {
                    Ok(s) if s.peer_addr().ok() == me => break,
                    Ok(_) => stale += 1,
                    Err(_) if Instant::now() > limit => break,
                    Err(_) => {}
                }
            }
        }
        Err(_) => while env.accept_rx.try_recv().is_ok() {},
    }
    let uid = SESSION_UID.fetch_add(1, Ordering::SeqCst);
    let (cside, bside) = build_sides(env, spec, uid);
    let volume = spec.c2b.max(spec.b2c);
    let budget = Duration::from_secs(20).max(Duration::from_micros(volume.saturating_mul(10)));
    let sh = Shared::new(started + budget + env.idle_limit);
    let bind = if env.cell.ipv6 { None } else { spec.src_ip.map(IpAddr::V4) };
    let mut ran = Ran { client: None, backend: None, timed_out: false, wedged: false, cut_by_loop_guard: false, no_backend: None, connect_error: None, wall: Duration::ZERO, stale_backend_connections: stale };
    let client = match peers::connect(env.front, bind, &spec.cprog, Duration::from_secs(3)) {
        Ok(c) => c,
        Err(e) => {
            ran.connect_error = Some(format!("{e}"));
            ran.wall = started.elapsed();
            return ran;
        }
    };
    std::thread::scope(|scope| {
        let (shr, csr, bsr) = (&sh, &cside, &bside);
        let ch = scope.spawn(move || engine::run_side(client, csr, shr));
        let mut bh = None;
        let mut no_backend = false;
        let mut grace: Option<Instant> = None;
        let mut last = sh.progress.load(Ordering::Relaxed);
        let mut since = Instant::now();
        let mut poked = false;
        loop {
            // sozu's connection to the backend
            if bh.is_none() && !no_backend {
                match env.accept_rx.recv_timeout(Duration::from_millis(2)) {
                    Ok(s) => {
                        if spec.bprog.rcvbuf > 0 {
                            let _ = socket2::SockRef::from(&s).set_recv_buffer_size(spec.bprog.rcvbuf);
                        }
                        if spec.bprog.sndbuf > 0 {
                            let _ = socket2::SockRef::from(&s).set_send_buffer_size(spec.bprog.sndbuf);
                        }
                        bh = Some(scope.spawn(move || engine::run_side(s, bsr, shr)));
                    }
                    Err(_) => {
                        if ch.is_finished() {
                            // the client side is over; sozu may still be connecting
                            let g = *grace.get_or_insert_with(Instant::now);
                            let released = env.probe.snapshot().nb_connections <= env.baseline_connections;
                            if (released && g.elapsed() > Duration::from_millis(30)) || g.elapsed() > Duration::from_millis(500) {
                                // Before concluding that sozu never connected: its connection, if any, was
                                // established before it released the session, so it sits in the FIFO accept
                                // queue ahead of a marker connection made now (the accept thread may lag).
                                let mut late = None;
                                if let Ok(marker) = std::net::TcpStream::connect_timeout(&env.back, Duration::from_secs(2)) {
                                    let me = marker.local_addr().ok();
                                    let limit = Instant::now() + Duration::from_secs(5);
                                    loop {
                                        match env.accept_rx.recv_timeout(Duration::from_millis(50)) {
                                            Ok(s) if s.peer_addr().ok() == me => break,
                                            Ok(s) => late = late.or(Some(s)),
                                            Err(_) if Instant::now() > limit => break,
                                            Err(_) => {}
                                        }
                                    }
                                }
                                match late {
                                    Some(s) => bh = Some(scope.spawn(move || engine::run_side(s, bsr, shr))),
                                    None => no_backend = true,
                                }
                            }
                        }
                    }
                }
            } else {
                std::thread::sleep(Duration::from_millis(2));
            }
            if ch.is_finished() && (no_backend || bh.as_ref().is_some_and(|h| h.is_finished())) {
                break;
            }
            if sh.abort.load(Ordering::SeqCst) && bh.is_none() {
                no_backend = true;
            }
            // watchdog on byte progress
            let now = sh.progress.load(Ordering::Relaxed);
            if now != last {
                last = now;
                since = Instant::now();
                continue;
            }
            if since.elapsed() > Duration::from_secs(3) && !poked {
                poked = true;
                // nothing moves: is the worker's event loop still alive?
                if !w.is_running() {
                    sh.abort.store(true, Ordering::SeqCst);
                } else {
                    // two unanswered Status commands (5 s each) and an iteration counter that stands still
                    let status = || RequestType::Status(sozu_command_lib::proto::command::Status {});
                    let before = env.probe.snapshot().iteration;
                    if !w.ok(status()) && !w.ok(status()) && w.is_running() && env.probe.snapshot().iteration == before {
                        ran.wedged = true;
                        sh.abort.store(true, Ordering::SeqCst);
                    }
                }
            }
            if since.elapsed() > env.idle_limit {
                sh.timed_out.store(true, Ordering::SeqCst);
                sh.abort.store(true, Ordering::SeqCst);
            }
        }
        ran.client = ch.join().ok();
        ran.backend = bh.and_then(|h| h.join().ok());
    });
    ran.timed_out = sh.timed_out.load(Ordering::SeqCst);
    ran.wall = started.elapsed();
    ran
}

// ------------------------------------------------------------------------------------------
// oracle
// ------------------------------------------------------------------------------------------

enum Verdict {
    Held,
    /// (signature, what)
    Violation(String, String),
    Stalled(String),
    Inconclusive(String),
}

fn ended(r: &SideReport) -> bool {
    matches!(r.end, End::Eof | End::Reset(_))
}

fn classify_mismatch(mode: Mode, dir: &str, spec: &SessionSpec, m: &engine::Mismatch, receiver: &SideReport) -> (String, String) {
    let hdr_class = spec.hdr.as_ref().map(|h| h.class.clone()).unwrap_or_default();
    let hdr_sig = spec.hdr.as_ref().map(|h| h.coarse()).unwrap_or_default();
    // (up to two leading bytes may match by coincidence)
    let at_start = m.offset <= 2;
    if dir == "client_to_backend" && mode.incoming_header() && at_start {
        // what arrived right behind the header?
        if let Some(h) = &spec.hdr {
            let n = m.got.len().min(8);
            let in_header = n >= 4 && h.bytes.windows(n).any(|w| w == &m.got[..n]);
            if mode == Mode::Expect && in_header {
                return (
                    format!("expect/header_bytes_forwarded/{hdr_sig}"),
                    format!("expect mode: the backend received bytes of the incoming PROXY header ({hdr_class}) instead of the payload"),
                );
            }
        }
        // a short tail (< 8 bytes) cannot be localised by the engine: look for it in the 232 bytes
        // sozu may have read past the header
        let small_shift = if m.shift.is_none() && m.got.len() >= 3 {
            let win = engine::ks_vec(receiver.recv.id, m.offset, 240 + m.got.len());
            win.windows(m.got.len()).position(|w| w == &m.got[..]).filter(|p| *p > 0).map(|p| p as i64)
        } else {
            None
        };
        if let Some(s) = m.shift.or(small_shift).filter(|s| *s > 0) {
            let s = s + m.offset as i64;
            return (
                format!("{}/payload_lost_after_header/{hdr_sig}", mode.name()),
                format!(
                    "{} mode: the first {s} payload byte(s) following a {hdr_class} PROXY header never reached the backend (stream resumes at payload offset {s})",
                    mode.name()
                ),
            );
        }
    }
    if mode.is_ws() && dir == "backend_to_client" && at_start && spec.ws_joined > 0 {
        return (
            (if (matches!(spec.script, Script::HalfClose { first: Who::Backend, .. }) || (spec.c2b == 0 && matches!(spec.script, Script::Exchange { first: Who::Backend }))) { "ws/bytes_behind_101_not_relayed/backend_ended_its_stream_at_once" } else { "ws/bytes_behind_101_not_relayed" }).to_owned(),
            format!(
                "the client's upgraded stream does not start with the bytes the backend sent in the same segment as its 101 response ({} joined; stream resumes at offset {:?})",
                spec.ws_joined, m.shift
            ),
        );
    }
    if mode == Mode::Send && m.looks_like_pp_signature {
        return ("send/second_header".into(), format!("send mode: a second PROXY signature appears in the backend stream at payload offset {}", m.offset));
    }
    let p = mode.stream_prefix();
    match m.shift {
        Some(s) if s > 0 => (format!("{p}/bytes_dropped/{dir}"), format!("{dir}: {s} byte(s) missing at stream offset {} ({} saw them skipped)", m.offset, receiver.name)),
        Some(s) => (format!("{p}/bytes_repeated/{dir}"), format!("{dir}: stream jumps back by {} byte(s) at offset {}", -s, m.offset)),
        None => (format!("{p}/bytes_corrupted/{dir}"), format!("{dir}: foreign bytes at stream offset {}", m.offset)),
    }
}

fn judge(env: &Env, spec: &SessionSpec, ran: &Ran, rep: &mut Report) -> Verdict {
    let mode = env.cell.mode;
    if let Some(e) = &ran.connect_error {
        return Verdict::Inconclusive(format!("client could not connect to the listener: {e}"));
    }
    let Some(c) = &ran.client else {
        return Verdict::Inconclusive("client thread lost".into());
    };
    let b = ran.backend.as_ref();
    let p = mode.stream_prefix();

    if ran.wedged {
        return Verdict::Violation(
            format!("{}/worker_event_loop_wedged", mode.name()),
            format!("{} mode: the session stopped moving and the worker answered neither of two Status commands (5 s each), its loop counter standing still: event loop stuck", mode.name()),
        );
    }
    let verdict = spec.hdr.as_ref().map(|h| h.verdict.clone());
    let hdr_class = spec.hdr.as_ref().map(|h| h.class.clone()).unwrap_or_default();
    let hdr_sig = spec.hdr.as_ref().map(|h| h.coarse()).unwrap_or_default();
    let forwarded = b.map(|b| b.recv.raw).unwrap_or(0);
    let relay_oversize_open = mode == Mode::Relay && verdict == Some(HdrVerdict::Oversized);
    let header_must_fail = mode.incoming_header() && matches!(verdict, Some(HdrVerdict::Malformed) | Some(HdrVerdict::Oversized)) && !relay_oversize_open;

    // WebSocket: the upgrade itself must have happened
    if mode.is_ws() && !header_must_fail {
        let refused = |how: String, closed_without_answer: bool, rep: &mut Report| -> Verdict {
            match (mode, &verdict) {
                (Mode::ExpectWs, Some(HdrVerdict::Lenient)) if closed_without_answer => {
                    rep.obs("expect_http_optional_header_rejected_exempt", 1);
                    Verdict::Held
                }
                (Mode::ExpectWs, Some(HdrVerdict::Valid)) | (Mode::ExpectWs, Some(HdrVerdict::Lenient)) => Verdict::Violation(
                    format!("expect_http/request_behind_valid_header_not_served/{hdr_sig}"),
                    format!("HTTP listener with expect_proxy: the upgrade request following a valid {hdr_class} PROXY header was {how}"),
                ),
                _ => Verdict::Inconclusive(format!("upgrade {how}")),
            }
        };
        match &c.recv.strip {
            Strip::HttpDone { head } if head.starts_with(b"HTTP/1.1 101") => {
                if let Some(Strip::HttpDone { head }) = b.map(|b| &b.recv.strip) {
                    let text = String::from_utf8_lossy(head);
                    if !text.starts_with(WS_REQUEST_LINE) || !text.contains(WS_TOKEN) {
                        return Verdict::Violation(
                            format!("{}/upgrade_request_not_intact", mode.name()),
                            format!("the upgrade request reached the backend without its request line or its token header: {:?}", &text[..text.len().min(80)]),
                        );
                    }
                }
            }
            Strip::HttpDone { head } if head.starts_with(b"HTTP/1.1 5") => {
                return Verdict::Inconclusive(format!("upgrade answered {:?} (backend-side trouble)", String::from_utf8_lossy(&head[..head.len().min(24)])));
            }
            Strip::HttpDone { head } => return refused(format!("answered {:?}", String::from_utf8_lossy(&head[..head.len().min(40)])), false, rep),
            _ if matches!(spec.script, Script::Rst { .. }) => return Verdict::Held,
            _ if ended(c) => return refused(format!("answered by closing the connection ({:?}, {} raw bytes)", c.end, c.recv.raw), c.recv.raw == 0 && forwarded == 0, rep),
            _ if ran.timed_out => return Verdict::Stalled("upgrade".into()),
            _ => return Verdict::Inconclusive("no complete answer to the upgrade request".into()),
        }
    }

    // 1. stream equality, always (nothing but the peer's next bytes may ever arrive)
    if let Some(b) = b {
        // safety net: a backend connection that carries an earlier session's stream (or, in send
        // mode, an earlier client's address) was opened late by sozu for that session
        let prior = env.prior.borrow();
        if let Some(m) = b.recv.mismatch.as_ref().filter(|m| m.got.len() >= 4) {
            if prior.iter().any(|(id, _)| engine::ks_vec(*id, m.offset, m.got.len()) == m.got) {
                return Verdict::Inconclusive("the backend connection belonged to an earlier session of the cell (late connect)".into());
            }
        }
        if let (Mode::Send, Strip::PpDone { header, .. }) = (mode, &b.recv.strip) {
            let mine = c.local.zip(c.peer).map(|(l, p)| pp::Addr::from_pair(l, p));
            if Some(&header.addr) != mine.as_ref() && prior.iter().any(|(_, a)| a.zip(c.peer).map(|(l, p)| pp::Addr::from_pair(l, p)).as_ref() == Some(&header.addr)) {
                return Verdict::Inconclusive("the backend connection belonged to an earlier session of the cell (late connect)".into());
            }
        }
        drop(prior);
        if let Some(m) = &b.recv.mismatch {
            let (sig, what) = classify_mismatch(mode, "client_to_backend", spec, m, b);
            return Verdict::Violation(sig, what);
        }
    }
    if let Some(m) = &c.recv.mismatch {
        let (sig, what) = classify_mismatch(mode, "backend_to_client", spec, m, c);
        return Verdict::Violation(sig, what);
    }

    // 2. malformed / oversized incoming header: nothing forwarded, session closed
    if header_must_fail {
        if forwarded > 0 {
            return Verdict::Violation(
                format!("{}/invalid_header_forwarded/{hdr_class}", mode.name()),
                format!("{} mode: {forwarded} byte(s) reached the backend behind a {hdr_class} PROXY header, which must close the session with nothing forwarded", mode.name()),
            );
        }
        if !ended(c) {
            return if ran.timed_out { Verdict::Stalled(format!("invalid_header_not_closed/{hdr_class}")) } else { Verdict::Inconclusive("client side ended without observing the close".into()) };
        }
        rep.obs(&format!("{}_invalid_header_closed_nothing_forwarded", mode.name()), 1);
        rep.obs(&format!("{}_invalid_header_class_{hdr_class}", mode.name()), 1);
        return Verdict::Held;
    }
    let either = verdict == Some(HdrVerdict::Lenient) || relay_oversize_open;
    // (the client may also have left on its own, `Complete`, when it expects no backend byte: a
    // header sozu may refuse and nothing forwarded is a permitted outcome either way)
    if mode.incoming_header() && either && forwarded == 0 && (ended(c) || c.end == End::Complete) && c.recv.payload < spec.b2c.max(1) {
        rep.obs(&format!("{}_optional_header_rejected_exempt", mode.name()), 1);
        return Verdict::Held;
    }

    // 3. the PROXY header the backend must see (send, relay)
    if matches!(mode, Mode::Send | Mode::Relay) {
        if let Some(b) = b.filter(|b| b.recv.raw > 0) {
            match &b.recv.strip {
                Strip::PpDone { header, .. } => {
                    if mode == Mode::Send {
                        let want = match (c.local, c.peer) {
                            (Some(l), Some(p)) => pp::Addr::from_pair(l, p),
                            _ => return Verdict::Inconclusive("client socket addresses unknown".into()),
                        };
                        let want_fam = if matches!(want, pp::Addr::V6(..)) { 0x21 } else { 0x11 };
                        if header.ver_cmd != 0x21 || header.fam_proto != want_fam {
                            return Verdict::Violation(
                                "send/wrong_command_or_family".into(),
                                format!("send mode: header has ver/cmd {:#04x} family/transport {:#04x}, expected 0x21 / {want_fam:#04x}", header.ver_cmd, header.fam_proto),
                            );
                        }
                        if header.addr != want {
                            return Verdict::Violation(
                                "send/wrong_addresses".into(),
                                format!("send mode: header carries {}, the client socket is {}", header.addr.describe(), want.describe()),
                            );
                        }
                        rep.obs("send_header_exact", 1);
                    } else if let Some(inc) = spec.hdr.as_ref().and_then(|h| h.parsed.as_ref()) {
                        let same = header.ver_cmd == inc.ver_cmd && header.fam_proto == inc.fam_proto && (inc.command() == 0 || header.addr == inc.addr);
                        if !same {
                            return Verdict::Violation(
                                format!("relay/header_altered/{hdr_sig}"),
                                format!(
                                    "relay mode: incoming header {:#04x}/{:#04x} {} was relayed as {:#04x}/{:#04x} {}",
                                    inc.ver_cmd, inc.fam_proto, inc.addr.describe(), header.ver_cmd, header.fam_proto, header.addr.describe()
                                ),
                            );
                        }
                        rep.obs("relay_header_exact", 1);
                    }
                }
                Strip::PpBad { why, looks_like_payload } => {
                    let sig = if *looks_like_payload { "payload_before_header" } else { "malformed_header" };
                    return Verdict::Violation(
                        format!("{}/{sig}", mode.name()),
                        format!("{} mode: the backend's first bytes are not a PROXY v2 header ({why})", mode.name()),
                    );
                }
                Strip::Pending(buf) if ended(b) && !matches!(spec.script, Script::Rst { .. }) && c.end != End::Aborted => {
                    // the stream ended inside the header; only meaningful when the client had not gone away first
                    if spec.c2b > 0 && c.send_done {
                        return Verdict::Violation(
                            format!("{}/truncated_header", mode.name()),
                            format!("{} mode: the backend stream ended after {} byte(s) of PROXY header", mode.name(), buf.len()),
                        );
                    }
                }
                _ => {}
            }
        }
    }

    // 4. completeness and end-of-stream ordering
    let incomplete = |dir: &str, sender: &SideReport, receiver: Option<&SideReport>, len: u64, rep: &mut Report| -> Option<Verdict> {
        let got = receiver.map(|r| r.recv.payload).unwrap_or(0);
        if got > len {
            return Some(Verdict::Violation(format!("{p}/extra_bytes/{dir}"), format!("{dir}: {got} bytes received, only {len} were sent")));
        }
        if got == len {
            return None;
        }
        // fewer bytes than sent
        if !sender.send_done && !ran.timed_out {
            // the sender could not even write everything: the connection was cut under it
            if let Some(r) = receiver {
                if !ended(r) {
                    return Some(Verdict::Inconclusive(format!("{dir}: sender failed ({:?}) and the receiver saw no end-of-stream", sender.send_err)));
                }
            }
        }
        // "rejected" is only said when the client was provably still waiting for backend bytes when
        // sozu closed (otherwise the close may be sozu's reaction to the client's own end-of-stream)
        let client_waiting = match &spec.script {
            Script::Exchange { first } => spec.b2c > 0 && c.recv.payload == 0 && (*first == Who::Client || spec.c2b > 0),
            _ => false,
        };
        if mode.incoming_header() && dir == "client_to_backend" && verdict == Some(HdrVerdict::Valid) && got == 0 && client_waiting {
            let connected = receiver.is_some_and(|r| r.recv.raw > 0);
            if receiver.is_none() && ran.no_backend.as_ref().is_some_and(|nb| nb.backend_held_back != Some(false)) {
                return Some(Verdict::Inconclusive(
                    "sozu closed the session without connecting: it recorded a failed backend connection less than 40 s ago (retry policy)".into(),
                ));
            }
            if !connected && ended(c) {
                return Some(Verdict::Violation(
                    format!("{}/valid_header_rejected/{hdr_sig}", mode.name()),
                    format!("{} mode: a valid {hdr_class} PROXY header was answered by closing the session, nothing reached the backend", mode.name()),
                ));
            }
        }
        if mode.is_ws() && dir == "backend_to_client" && got == 0 && spec.ws_joined > 0 && receiver.is_some_and(ended) {
            return Some(Verdict::Violation(
                (if (matches!(spec.script, Script::HalfClose { first: Who::Backend, .. }) || (spec.c2b == 0 && matches!(spec.script, Script::Exchange { first: Who::Backend }))) { "ws/bytes_behind_101_not_relayed/backend_ended_its_stream_at_once" } else { "ws/bytes_behind_101_not_relayed" }).to_owned(),
                format!("the {} byte(s) the backend sent in the same segment as its 101 response never reached the client (0 of {len} bytes at end-of-stream)", spec.ws_joined),
            ));
        }
        // When the opposite direction is still carrying data at the moment sozu ends the session,
        // its close is abortive (unread input => RST) and destroys what it had already written:
        // a different mechanism, reported under its own signature.
        // Observed, not inferred from the script: this direction's sender had finished and ended its
        // stream, and in the opposite direction the peer had written more bytes than ever came out
        // of sozu (bytes joined to a PROXY header count): sozu ended the session on the first
        // end-of-stream while the other direction was carrying data.
        let (opposite_written, opposite_received) = if dir == "client_to_backend" {
            (b.map(|b| b.sent).unwrap_or(0), c.recv.payload + c.recv.after_mismatch)
        } else {
            (c.sent, b.map(|b| b.recv.payload + b.recv.after_mismatch).unwrap_or(0))
        };
        let busy = sender.send_done && opposite_written > opposite_received;
        // sozu ended the session itself through its loop-iteration guard (MAX_LOOP_ITERATIONS turns
        // of one ready() call without either socket blocking): observed on sozu's own
        // `tcp.infinite_loop.error` / `http.infinite_loop.error` counters, which moved during this
        // session. Whatever is missing in either direction was cut by that.
        // A paced stream that outlasts the front timeout: the cut is a violation only if the harness
        // sender itself really kept writing well within the timeout (its own write timestamps);
        // if it was starved for front_timeout/2 or more, sozu's idle timer may have fired rightly.
        let mut paced_variant = false;
        if let Some(ft_ms) = spec.paced_front_timeout_ms {
            if sender.writes >= 2 && sender.max_write_gap_ms < ft_ms / 2 {
                paced_variant = true;
            } else {
                return Some(Verdict::Inconclusive(format!(
                    "{dir}: paced stream cut, but the scripted sender paused {} ms (front timeout {ft_ms} ms): pacing not achieved",
                    sender.max_write_gap_ms
                )));
            }
        }
        let variant = if ran.cut_by_loop_guard {
            "/session_cut_mid_transfer"
        } else if paced_variant {
            "/idle_timer_fired_despite_traffic"
        } else if busy {
            "/opposite_direction_busy"
        } else {
            ""
        };
        match receiver {
            Some(r) if ended(r) => {
                let _ = rep;
                Some(Verdict::Violation(
                    format!("{p}/eos_before_all_bytes/{dir}{variant}"),
                    format!("{dir}: the receiver observed end-of-stream ({:?}) after {got} of {len} bytes{}{}", r.end, if sender.send_done { " (all of them written before the sender ended its stream)" } else { " (the sender was cut while writing)" }, if paced_variant { format!("; the sender wrote {} times over {} ms, never pausing more than {} ms (front timeout {} ms), the end-of-stream came {:?} ms after the last byte", sender.writes, sender.write_span_ms, sender.max_write_gap_ms, spec.paced_front_timeout_ms.unwrap_or(0), r.eos_after_last_byte_ms) } else if busy { format!("; the opposite direction was still carrying data ({opposite_received} of the {opposite_written} bytes written there had come out)") } else { String::new() }),
                ))
            }
            None if ended(c) && dir == "client_to_backend" => match &ran.no_backend {
                // sozu did write to a backend socket the harness never handed to this session
                Some(nb) if nb.sozu_wrote > 0 => Some(Verdict::Inconclusive(format!(
                    "sozu wrote {} byte(s) but no backend connection reached the session (lost on the harness side)",
                    nb.sozu_wrote
                ))),
                // sozu refuses sessions while it holds its backend for failed/down: eligibility is not this property
                Some(nb) if nb.backend_held_back != Some(false) => Some(Verdict::Inconclusive(
                    "sozu closed the session without connecting: it recorded a failed backend connection less than 40 s ago (retry policy)".into(),
                )),
                _ => Some(Verdict::Violation(
                    format!("{p}/eos_before_all_bytes/{dir}"),
                    format!("{dir}: the session was closed without any backend connection carrying the {len} byte(s) sent (sozu wrote nothing and has no backend failure on record)"),
                )),
            },
            _ if ran.timed_out && mode.incoming_header() && dir == "client_to_backend" && got == 0 && spec.joined > 0 => {
                Some(Verdict::Stalled(format!("after_header/{hdr_sig}")))
            }
            _ if ran.timed_out => Some(Verdict::Stalled(dir.to_owned())),
            _ => Some(Verdict::Inconclusive(format!("{dir}: incomplete without end-of-stream"))),
        }
    };

    match &spec.script {
        Script::Rst { .. } => {
            rep.obs("rst_sessions_prefix_checked", 1);
            Verdict::Held
        }
        Script::Exchange { first } => {
            if let Some(v) = incomplete("client_to_backend", c, b, spec.c2b, rep) {
                return v;
            }
            if b.is_some() || spec.b2c > 0 {
                let Some(b) = b else {
                    return Verdict::Inconclusive("no backend connection for a session with backend payload".into());
                };
                if let Some(v) = incomplete("backend_to_client", b, Some(c), spec.b2c, rep) {
                    return v;
                }
                // the second closer must see the first closer's end-of-stream
                let other = if *first == Who::Client { b } else { c };
                if !ended(other) {
                    return if ran.timed_out { Verdict::Stalled(format!("eos_from_{first:?}").to_lowercase()) } else { Verdict::Inconclusive("second closer did not wait for end-of-stream".into()) };
                }
            }
            rep.obs("exchange_sessions_both_directions_exact", 1);
            Verdict::Held
        }
        Script::HalfClose { first, late } => {
            let (f, o, f_len, o_len, fdir, odir) = match first {
                Who::Client => (Some(c), b, spec.c2b, spec.b2c, "client_to_backend", "backend_to_client"),
                Who::Backend => (b, Some(c), spec.b2c, spec.c2b, "backend_to_client", "client_to_backend"),
            };
            let Some(f) = f else {
                // backend-first script without a backend connection
                return if spec.c2b == 0 && spec.b2c == 0 { Verdict::Held } else { Verdict::Inconclusive("no backend connection".into()) };
            };
            if o.is_none() && f_len == 0 {
                return Verdict::Held;
            }
            if let Some(v) = incomplete(fdir, f, o, f_len, rep) {
                return v;
            }
            if let Some(o) = o {
                if !ended(o) {
                    return if ran.timed_out { Verdict::Stalled(format!("eos_{fdir}")) } else { Verdict::Inconclusive("reader left before end-of-stream".into()) };
                }
            }
            rep.obs(&format!("halfclose_{}_stream_complete_at_eos", format!("{first:?}").to_lowercase()), 1);
            // the reverse direction: sozu ends the whole session on the first end-of-stream;
            // neither the statement nor the documentation promises more, so this is only counted
            let got = f.recv.payload;
            if got > o_len {
                return Verdict::Violation(format!("{p}/extra_bytes/{odir}"), format!("{odir}: {got} bytes received, only {o_len} were sent"));
            }
            let key = if *late { "after" } else { "concurrent" };
            if o_len > 0 {
                if got == o_len {
                    rep.obs(&format!("halfclose_reverse_{key}_fully_delivered"), 1);
                } else {
                    rep.obs(&format!("halfclose_reverse_{key}_cut_exempt"), 1);
                }
            }
            Verdict::Held
        }
    }
}

// ------------------------------------------------------------------------------------------
// cells
// ------------------------------------------------------------------------------------------

struct CellShared {
    /// TCP expect mode kills the worker / relay mode wedges it: do not burn more workers on it
    expect_tcp_dead: AtomicBool,
    relay_dead: AtomicBool,
    relay_canary_done: AtomicBool,
    stalled: Mutex<Vec<(CellSpec, SessionSpec)>>,
    programs: Mutex<BTreeSet<String>>,
    splits: Mutex<BTreeSet<(String, usize, bool)>>,
}

fn setup_worker(cell: &CellSpec) -> Result<(Worker, BackendServer, AcceptQueue, SocketAddr), String> {
    let (front, back): (SocketAddr, SocketAddr) = if cell.ipv6 {
        let ip = lab::fresh_ip().octets();
        let port = 20000 + ((ip[2] as u16) * 254 + ip[3] as u16) % 30000;
        (SocketAddr::new(IpAddr::V6(Ipv6Addr::LOCALHOST), port), SocketAddr::new(IpAddr::V6(Ipv6Addr::LOCALHOST), port + 1))
    } else {
        let ip = lab::fresh_ip();
        (lab::sa(ip, 8080), lab::sa(ip, 9000))
    };
    let (tx, rx) = channel::<(usize, std::net::TcpStream)>();
    let tx: Mutex<Sender<(usize, std::net::TcpStream)>> = Mutex::new(tx);
    let rx = AcceptQueue { rx, next: std::cell::Cell::new(0), pending: Default::default() };
    let bprog = IoProgram { rcvbuf: cell.backend_rcvbuf, ..IoProgram::fast() };
    let backend = BackendServer::start(back, bprog, move |s, idx| {
        let _ = tx.lock().unwrap_or_else(|e| e.into_inner()).send((idx, s));
    })
    .map_err(|e| format!("backend listener on {back}: {e}"))?;
    let opts = WorkerOpts { buffer_size: cell.buffer_size, knobs: cell.knobs.clone(), ..WorkerOpts::default() };
    let mut w = Worker::start(opts);
    let ft = cell.front_timeout;
    let bt = cell.back_timeout;
    let proxy_protocol = match cell.mode {
        Mode::Send => Some(ProxyProtocolConfig::SendHeader as i32),
        Mode::Expect => Some(ProxyProtocolConfig::ExpectHeader as i32),
        Mode::Relay => Some(ProxyProtocolConfig::RelayHeader as i32),
        _ => None,
    };
    let ok = if cell.mode.is_ws() {
        let expect = cell.mode == Mode::ExpectWs;
        w.add_http_listener(front, |b| {
            b.with_expect_proxy(expect).with_front_timeout(Some(ft)).with_back_timeout(Some(bt)).with_request_timeout(Some(ft));
        }) && w.add_cluster(Cluster { cluster_id: "c18".into(), ..Default::default() })
            && w.add_http_frontend(Worker::http_frontend("c18", front, WS_HOST, "/"))
            && w.add_backend("c18", "b0", back)
    } else {
        let expect = matches!(cell.mode, Mode::Expect | Mode::Relay);
        w.add_tcp_listener(front, |b| {
            b.with_expect_proxy(expect).with_front_timeout(Some(ft)).with_back_timeout(Some(bt));
        }) && w.add_cluster(Cluster { cluster_id: "c18".into(), proxy_protocol, ..Default::default() })
            && w.add_tcp_frontend("c18", front)
            && w.add_backend("c18", "b0", back)
    };
    if !ok {
        let _ = w.stop();
        return Err("worker configuration refused".into());
    }
    Ok((w, backend, rx, front))
}

fn witness(ctx: &Ctx, cell: &CellSpec, spec: &SessionSpec, ran: &Ran, front: SocketAddr) -> Value {
    json!({
        "case": cell.idx, "seed": ctx.seed, "cell": cell.json(), "listener": front.to_string(),
        "session": spec.json(),
        "client": ran.client.as_ref().map(|r| r.json()),
        "backend": ran.backend.as_ref().map(|r| r.json()),
        "watchdog_expired": ran.timed_out, "wall_ms": ran.wall.as_millis() as u64,
        "ended_by_sozu_loop_guard": ran.cut_by_loop_guard,
        "no_backend_diagnosis": ran.no_backend.as_ref().map(|n| format!("{n:?}")),
    })
}

fn fingerprint(cell: &CellSpec, spec: &SessionSpec) -> Vec<u8> {
    format!(
        "{}|{}|{}|{}|{}|{}|{}|{}|{}|{}",
        cell.mode.name(),
        spec.script.name(),
        size_bucket(spec.c2b),
        size_bucket(spec.b2c),
        spec.hdr.as_ref().map(|h| h.class.as_str()).unwrap_or("-"),
        spec.split.is_some(),
        spec.joined > 0,
        spec.cprog.describe(),
        spec.bprog.describe(),
        cell.buffer_size
    )
    .into_bytes()
}

const IO_KEYS: &[&str] = &["read.wouldblock", "write.wouldblock", "write.partial", "read.partial"];

fn io_counters(p: &sozu_lib::verif::Probe) -> Vec<u64> {
    let c = p.counters();
    let mut out = Vec::new();
    for kind in ["tcp", "session_tcp"] {
        for k in IO_KEYS {
            out.push(c.get(&format!("io.{kind}.{k}")).copied().unwrap_or(0));
        }
    }
    out
}

/// returns false when the cell must be abandoned
fn wait_released(env: &Env, w: &mut Worker, limit: Duration) -> Result<(), String> {
    let start = Instant::now();
    loop {
        let n = env.probe.snapshot().nb_connections;
        if n <= env.baseline_connections {
            return Ok(());
        }
        if !w.is_running() {
            return Err("worker thread ended".into());
        }
        if start.elapsed() > limit {
            return Err(format!("nb_connections {n} (baseline {})", env.baseline_connections));
        }
        std::thread::sleep(Duration::from_micros(300));
    }
}

fn run_cell(ctx: &Ctx, cell: &CellSpec, rep: &mut Report, shared: &CellShared, isolated: Option<&SessionSpec>) {
    if cell.mode == Mode::Relay && !cell.canary {
        // wait for the verdict of the canary cell (a wedged worker spins on a core until the process ends)
        let start = Instant::now();
        while !shared.relay_canary_done.load(Ordering::SeqCst) && start.elapsed() < Duration::from_secs(90) {
            std::thread::sleep(Duration::from_millis(20));
        }
    }
    if (cell.mode == Mode::Relay && shared.relay_dead.load(Ordering::SeqCst)) || (cell.mode == Mode::Expect && shared.expect_tcp_dead.load(Ordering::SeqCst)) {
        rep.obs(&format!("cells_skipped_{}_mode_kills_the_worker", cell.mode.name()), 1);
        return;
    }
    let sweep = sweep_variants();
    let malformed = malformed_headers();
    let (mut w, mut backend, rx, front) = match setup_worker(cell) {
        Ok(x) => x,
        Err(e) => {
            if cell.ipv6 {
                rep.obs("ipv6_cell_skipped_no_ipv6_loopback", 1);
            } else {
                rep.inconclusive(&format!("cell setup failed: {e}"));
            }
            return;
        }
    };
    let probe = w.probe.clone();
    w.wait_iterations(1, Duration::from_millis(500));
    let env = Env {
        cell,
        front,
        back: backend.addr,
        probe: probe.clone(),
        accept_rx: &rx,
        baseline_connections: probe.snapshot().nb_connections,
        idle_limit: Duration::from_secs(ctx.opt_u64("idle_limit_s", 20)),
        prior: std::cell::RefCell::new(Vec::new()),
    };
    rep.obs("cells", 1);
    rep.obs(&format!("cells_mode_{}", cell.mode.name()), 1);
    let (mut loop_guard_seen, mut backend_failures_seen) = sozu_accounting(&mut w).unwrap_or((0, 0));
    let mut backend_failure_at: Option<Instant> = None;
    let mut strikes = 0;
    let mut abandoned = false;
    let sessions: Vec<SessionSpec> = match isolated {
        Some(s) => vec![s.clone()],
        None => (0..cell.n_sessions)
            .filter(|k| ctx.opt("only_session").and_then(|v| v.parse::<u64>().ok()).is_none_or(|only| only == *k))
            .map(|k| gen_session(cell, ctx.seed, k, &sweep, &malformed))
            .collect(),
    };
    let mut sweep_done = 0u64;
    for spec in &sessions {
        if isolated.is_none() && ctx.started.elapsed() > ctx.budget + Duration::from_secs(10) {
            rep.obs("sessions_not_started_budget_exhausted", 1);
            continue;
        }
        let before = io_counters(&probe);
        let wrote_before = probe.counter("io.tcp.write.bytes") + probe.counter("io.session_tcp.write.bytes");
        let accepted_before = backend.accepted.load(Ordering::SeqCst);
        let accepts = accept_count(&probe);
        let mut ran = run_session(&env, spec, &mut w);
        if w.is_running() && !ran.wedged {
            let accounting = sozu_accounting(&mut w);
            if let Some((guard, failures)) = accounting {
                if guard > loop_guard_seen {
                    ran.cut_by_loop_guard = true;
                    rep.obs("sessions_ended_by_sozu_loop_iteration_guard", 1);
                }
                loop_guard_seen = guard;
                if failures > backend_failures_seen {
                    backend_failure_at = Some(Instant::now());
                    rep.obs("backend_connection_failures_recorded_by_sozu", (failures - backend_failures_seen) as u64);
                }
                backend_failures_seen = failures;
            } else {
                rep.obs("sozu_metrics_query_failed", 1);
            }
            if ran.backend.is_none() && ran.client.is_some() {
                ran.no_backend = Some(NoBackend {
                    sozu_wrote: (probe.counter("io.tcp.write.bytes") + probe.counter("io.session_tcp.write.bytes")).saturating_sub(wrote_before),
                    backend_accepted: backend.accepted.load(Ordering::SeqCst).saturating_sub(accepted_before),
                    backend_held_back: accounting.map(|_| backend_failure_at.is_some_and(|t| t.elapsed() < Duration::from_secs(40))),
                });
            }
        }
        if ran.connect_error.is_none() && w.is_running() && !ran.wedged && !wait_accepted(&probe, accepts + 1, Duration::from_secs(2)) {
            rep.obs("sessions_never_seen_accepted_by_sozu", 1);
        }
        rep.obs(&format!("sessions_mode_{}", cell.mode.name()), 1);
        if !w.is_running() {
            // the worker died under this session: the panic is the finding, the session says nothing more
            rep.obs("sessions_cut_by_worker_death", 1);
            rep.case_bytes(&fingerprint(cell, spec), true);
            if cell.mode == Mode::Expect {
                shared.expect_tcp_dead.store(true, Ordering::SeqCst);
            }
            abandoned = true;
            break;
        }
        if ran.wedged {
            if cell.mode == Mode::Relay {
                shared.relay_dead.store(true, Ordering::SeqCst);
            }
            rep.case_bytes(&fingerprint(cell, spec), true);
            if let Verdict::Violation(sig, what) = judge(&env, spec, &ran, rep) {
                rep.violation(&sig, &what, witness(ctx, cell, spec, &ran, front));
            }
            abandoned = true;
            break;
        }
        let after = io_counters(&probe);
        let delta: Vec<u64> = after.iter().zip(before.iter()).map(|(a, b)| a - b).collect();
        let verdict = judge(&env, spec, &ran, rep);
        if let Some(c) = &ran.client {
            env.prior.borrow_mut().push((c.recv.id.wrapping_sub(1), c.local));
        }
        if std::env::var_os("VH_C18_TRACE").is_some() {
            eprintln!(
                "cell {} {} k={} c2b={} b2c={} {} | c[{}] b[{}] knobs={:?} brcv={} bs={} wall={}ms loop_guard={} verdict={}",
                cell.idx, cell.mode.name(), spec.k, spec.c2b, spec.b2c, spec.script.name(), spec.cprog.describe(), spec.bprog.describe(),
                cell.knobs, cell.backend_rcvbuf, cell.buffer_size, ran.wall.as_millis(), ran.cut_by_loop_guard,
                match &verdict { Verdict::Held => "held".to_owned(), Verdict::Violation(s, _) => format!("VIOLATION {s}"), Verdict::Stalled(d) => format!("stalled {d}"), Verdict::Inconclusive(w) => format!("inconclusive {w}") }
            );
        }

        // evidence
        let mode = cell.mode.name();
        rep.obs(&format!("script_{}", spec.script.name()), 1);
        rep.obs(&format!("size_bucket_c2b_{}", size_bucket(spec.c2b)), 1);
        rep.obs(&format!("size_bucket_b2c_{}", size_bucket(spec.b2c)), 1);
        if let Some(b) = &ran.backend {
            rep.obs("bytes_relayed_client_to_backend", b.recv.payload);
        }
        if let Some(c) = &ran.client {
            rep.obs("bytes_relayed_backend_to_client", c.recv.payload);
            rep.obs("split_waits_timed_out", c.split_wait_timeouts);
        }
        rep.obs_max("session_wall_ms", ran.wall.as_millis() as u64);
        rep.obs("late_backend_connections_of_earlier_sessions_discarded", ran.stale_backend_connections);
        if let Some(h) = &spec.hdr {
            rep.obs(&format!("{mode}_header_class_{}", h.class), 1);
        }
        for (i, kind) in ["tcp", "session_tcp"].iter().enumerate() {
            for (j, k) in IO_KEYS.iter().enumerate() {
                let d = delta[i * IO_KEYS.len() + j];
                if d > 0 {
                    rep.obs(&format!("sessions_with_sozu_{kind}_{k}"), 1);
                }
            }
        }
        // which side of sozu hit EAGAIN on write: decidable when only one direction carries data
        let wwb = delta[1] + delta[IO_KEYS.len() + 1];
        let wpart = delta[2] + delta[IO_KEYS.len() + 2];
        if spec.b2c == 0 && spec.c2b > 0 && cell.mode != Mode::Ws {
            rep.obs("sozu_write_wouldblock_backend_side", wwb);
            rep.obs("sozu_write_partial_backend_side", wpart);
        }
        if spec.c2b == 0 && spec.b2c > 0 && cell.mode != Mode::Ws {
            rep.obs("sozu_write_wouldblock_frontend_side", wwb);
            rep.obs("sozu_write_partial_frontend_side", wpart);
        }
        shared.programs.lock().unwrap().insert(format!("{}|{}", spec.cprog.describe(), spec.bprog.describe()));
        let nontrivial = spec.c2b + spec.b2c > 0 || spec.hdr.is_some();
        rep.case_bytes(&fingerprint(cell, spec), nontrivial);
        if spec.k < 2 && cell.idx % 7 == 0 {
            rep.sample(json!({"cell": cell.json(), "session": spec.json(), "client": ran.client.as_ref().map(|r| r.json()), "backend": ran.backend.as_ref().map(|r| r.json())}));
        }

        if let (CellKind::Paced { download }, Some(ft_ms)) = (&cell.kind, spec.paced_front_timeout_ms) {
            let dir = if *download { "download" } else { "upload" };
            let sender = if *download { ran.backend.as_ref() } else { ran.client.as_ref() };
            let paced_ok = sender.is_some_and(|s| s.writes >= 2 && s.max_write_gap_ms < ft_ms / 2);
            let outlasted = sender.is_some_and(|s| s.write_span_ms * 2 > ft_ms * 5);
            match &verdict {
                Verdict::Held | Verdict::Violation(..) if paced_ok && (outlasted || matches!(verdict, Verdict::Violation(..))) => {
                    rep.obs(&format!("paced_{dir}_streams_outlasting_front_timeout_judged"), 1);
                    rep.obs(&format!("paced_{dir}_judged_{mode}"), 1);
                    rep.obs_max("paced_stream_span_ms", sender.map(|s| s.write_span_ms).unwrap_or(0));
                    rep.obs_max("paced_stream_longest_pause_ms", sender.map(|s| s.max_write_gap_ms).unwrap_or(0));
                }
                _ => rep.obs("paced_sessions_pacing_not_achieved", 1),
            }
        }
        match verdict {
            Verdict::Held => {
                rep.obs(&format!("sessions_judged_{mode}"), 1);
                if let (CellKind::Sweep { .. }, Some(h)) = (&cell.kind, &spec.hdr) {
                    shared.splits.lock().unwrap().insert((format!("{mode}/{}", h.class), spec.split.unwrap_or(0), spec.joined > 0));
                    sweep_done += 1;
                }
            }
            Verdict::Violation(sig, what) => {
                rep.obs(&format!("sessions_judged_{mode}"), 1);
                if let (CellKind::Sweep { .. }, Some(h)) = (&cell.kind, &spec.hdr) {
                    shared.splits.lock().unwrap().insert((format!("{mode}/{}", h.class), spec.split.unwrap_or(0), spec.joined > 0));
                    sweep_done += 1;
                }
                rep.violation(&sig, &what, witness(ctx, cell, spec, &ran, front));
            }
            Verdict::Stalled(dir) => {
                strikes += 1;
                if isolated.is_some() {
                    let sig = if dir.starts_with("invalid_header_not_closed") {
                        format!("{mode}/{dir}")
                    } else if dir.starts_with("after_header/") {
                        // the payload sent in the segment of the header never came out
                        format!("{mode}/stalled_{dir}")
                    } else {
                        format!("{}/stalled/{dir}", cell.mode.stream_prefix())
                    };
                    rep.violation(
                        &sig,
                        &format!("no byte moved for {} s although both scripted peers were reading and writing ({dir}); reproduced alone on a fresh worker", env.idle_limit.as_secs()),
                        witness(ctx, cell, spec, &ran, front),
                    );
                } else {
                    rep.obs("watchdog_expired_rerun_queued", 1);
                    shared.stalled.lock().unwrap().push((cell.clone(), spec.clone()));
                }
            }
            Verdict::Inconclusive(why) => {
                if isolated.is_some() {
                    rep.obs("isolated_rerun_inconclusive", 1);
                }
                rep.inconclusive(&why);
            }
        }

        // 5. universal: worker alive, session released
        if !w.is_running() {
            abandoned = true;
            break;
        }
        match wait_released(&env, &mut w, Duration::from_secs(8)) {
            Ok(()) => rep.obs("sessions_released", 1),
            Err(why) => {
                if !w.is_running() {
                    abandoned = true;
                    break;
                }
                // is the event loop still serving commands?
                let status = || RequestType::Status(sozu_command_lib::proto::command::Status {});
                let before = probe.snapshot().iteration;
                let alive = w.ok(status()) || w.ok(status()) || probe.snapshot().iteration != before;
                if !alive {
                    if cell.mode == Mode::Relay {
                        shared.relay_dead.store(true, Ordering::SeqCst);
                    }
                    shared.stalled.lock().unwrap().retain(|(c, _)| c.idx != cell.idx);
                    rep.violation(
                        &format!("{}/worker_event_loop_wedged", cell.mode.name()),
                        "after this session the worker neither released it nor answered two Status commands (5 s each), its loop counter standing still: event loop stuck",
                        witness(ctx, cell, spec, &ran, front),
                    );
                    abandoned = true;
                    break;
                }
                rep.violation(
                    "tcp/session_not_released",
                    &format!("both peers closed their sockets, 8 s later the worker still counts the session: {why}"),
                    witness(ctx, cell, spec, &ran, front),
                );
                abandoned = true;
                break;
            }
        }
        if strikes >= 2 {
            rep.obs("cells_abandoned_after_two_watchdog_expiries", 1);
            abandoned = true;
            break;
        }
    }
    if let CellKind::Sweep { from, to, .. } = &cell.kind {
        if isolated.is_none() && sweep_done == ((to - from) * 2) as u64 {
            rep.obs(&format!("{}_sweep_cells_complete", cell.mode.name()), 1);
        }
    }
    if abandoned {
        rep.obs("cells_abandoned", 1);
    }
    for (k, v) in probe.counters() {
        if k.starts_with("io.") {
            rep.obs(&format!("sozu.{k}"), v);
        }
    }
    let was_running = w.is_running();
    backend.stop();
    let panics = w.stop();
    if !was_running && panics.is_empty() {
        rep.obs("worker_ended_without_panic_record", 1);
    }
    for p in panics {
        if p.in_sozu() {
            rep.violation(
                &p.signature(),
                &format!("the worker thread panicked in {} mode: {} at {}", cell.mode.name(), p.message, p.location),
                json!({"case": cell.idx, "seed": ctx.seed, "cell": cell.json(), "panic": p.message, "location": p.location}),
            );
        } else {
            rep.broken(&format!("worker thread panicked outside sozu: {} at {}", p.message, p.location));
        }
    }
}

fn build_cells(ctx: &Ctx) -> Vec<CellSpec> {
    let mut cells = Vec::new();
    let mut rng = Rng::for_case(ctx.seed, STREAM, u64::MAX);
    let scale = ctx.opt_u64("scale", ctx.tier.pick(1, 30));
    let max_size = ctx.opt_u64("max_size", ctx.tier.pick(8 << 20, 64 << 20));
    let base = |mode: Mode, kind: CellKind, n: u64| CellSpec {
        idx: 0,
        mode,
        kind,
        buffer_size: 16393,
        knobs: vec![],
        backend_rcvbuf: 0,
        ipv6: false,
        n_sessions: n,
        max_size,
        front_timeout: 60,
        back_timeout: 60,
        canary: false,
    };
    let variants = sweep_variants();
    let sweep_cells = |mode: Mode, list: &[usize], cells: &mut Vec<CellSpec>| {
        for &v in list {
            let len = variants[v].bytes.len();
            let mut from = 0;
            while from < len {
                let to = (from + 60).min(len);
                cells.push(base(mode, CellKind::Sweep { variant: v, from, to }, ((to - from) * 2) as u64));
                from = to;
            }
        }
    };
    let all: Vec<usize> = (0..variants.len()).collect();
    let n_mal = malformed_headers().len() as u64 * 2;
    let malformed_cell = |mode: Mode| {
        let mut c = base(mode, CellKind::Malformed, n_mal);
        c.front_timeout = 2;
        c.back_timeout = 2;
        c
    };
    // 1. the relay canary (runs beside everything else), then the exhaustive split sweep through
    //    the HTTP listener (the only `expect` path that survives a connection at this commit)
    let mut canary = base(Mode::Relay, CellKind::Sweep { variant: 0, from: 0, to: 28 }, 56);
    canary.canary = true;
    cells.push(canary);
    sweep_cells(Mode::ExpectWs, &all, &mut cells);
    cells.push(malformed_cell(Mode::ExpectWs));
    // 2. random cells
    let per_cell = ctx.opt_u64("sessions_per_cell", 60);
    let plan = [(Mode::Plain, 30u64), (Mode::Send, 12), (Mode::Ws, 12), (Mode::ExpectWs, 8), (Mode::Expect, 2), (Mode::Relay, 3)];
    for round in 0..scale {
        for (mode, count) in plan {
            for i in 0..count {
                let mut c = base(mode, CellKind::Random, per_cell);
                c.buffer_size = if mode.is_ws() { *rng.pick(&[16393u64, 32768]) } else { *rng.pick(&[16393u64, 16393, 4096, 1031, 65536, 32768]) };
                // send buffers of a few KB give EAGAIN after a few KB; receive buffers below ~16 KB make
                // the kernel advertise zero windows (silly-window avoidance) and crawl at 50 KB/s
                let small = *rng.pick(&[4096i64, 8192, 16384]);
                let rcv = *rng.pick(&[16384i64, 32768]);
                c.knobs = match rng.below(5) {
                    0 => vec![],
                    1 => vec![("front_sndbuf".to_owned(), small)],
                    2 => vec![("back_sndbuf".to_owned(), small)],
                    3 => vec![("front_sndbuf".to_owned(), small), ("back_sndbuf".to_owned(), small)],
                    _ => vec![("front_sndbuf".to_owned(), small), ("back_sndbuf".to_owned(), small), ("front_rcvbuf".to_owned(), rcv), ("back_rcvbuf".to_owned(), rcv)],
                };
                c.backend_rcvbuf = *rng.pick(&[0usize, 0, 16384, 32768]);
                if c.backend_rcvbuf > 0 || c.knobs.iter().any(|(k, _)| k.ends_with("rcvbuf")) {
                    c.max_size = c.max_size.min(300_000);
                }
                c.ipv6 = mode == Mode::Send && i == 1 && round == 0;
                cells.push(c);
            }
        }
    }
    // 3. the TCP-listener expect / relay sweeps and malformed cells (gated: see CellShared)
    sweep_cells(Mode::Expect, &all, &mut cells);
    cells.push(malformed_cell(Mode::Expect));
    sweep_cells(Mode::Relay, RELAY_SWEEP, &mut cells);
    cells.push(malformed_cell(Mode::Relay));
    // 4. idle-timer cells: a short front timeout, a long back timeout, one paced one-directional
    //    stream each (they cost ~6 s of sleeping: scheduled first, see `run`)
    for mode in [Mode::Plain, Mode::Send, Mode::Relay, Mode::Ws] {
        for download in [true, false] {
            let mut c = base(mode, CellKind::Paced { download }, 1);
            c.front_timeout = 2;
            c.back_timeout = 30;
            cells.push(c);
        }
    }
    for (i, c) in cells.iter_mut().enumerate() {
        c.idx = i as u64;
    }
    // debugging aids: --opt only=<mode>[,<mode>] --opt kind=random|sweep|malformed
    if let Some(only) = ctx.opt("only") {
        cells.retain(|c| only.split(',').any(|m| m == c.mode.name()));
    }
    if let Some(kind) = ctx.opt("kind") {
        cells.retain(|c| match c.kind {
            CellKind::Random => kind == "random",
            CellKind::Sweep { .. } => kind == "sweep",
            CellKind::Malformed => kind == "malformed",
            CellKind::Paced { .. } => kind == "paced",
        });
    }
    if let Some(n) = ctx.opt("max_cells").and_then(|v| v.parse::<usize>().ok()) {
        cells.truncate(n);
    }
    cells
}

const SWEEP_MODES: &[(Mode, &[usize])] = &[(Mode::ExpectWs, &[0, 1, 2, 3, 4, 5, 6, 7, 8, 9]), (Mode::Expect, &[0, 1, 2, 3, 4, 5, 6, 7, 8, 9]), (Mode::Relay, RELAY_SWEEP)];

pub fn run(ctx: &Ctx) -> Report {
    let mut rep = Report::new(
        "exploration",
        "cells = (proxy-protocol mode, buffer_size, socket-buffer knobs) x sessions; a session = payload sizes per direction from the boundary set {0,1,buffer_size+-2,16384+-9,65535+-1,2^n+-1,...,max}, a close script (exchange / half-close from either side with concurrent or late reverse traffic / RST at a random offset), an I/O program per peer (segment size, pauses, read chunk, SO_RCVBUF/SO_SNDBUF) and, in expect/relay mode, a PROXY v2 header shape, a split position and whether payload shares the segment; split positions of 10 header shapes are enumerated exhaustively; non-trivial = at least one payload byte or a header; distinct = distinct (mode, script, size buckets, header class, split?, joined?, I/O programs, buffer_size)",
    );
    rep.max_samples = 8;
    rep.assume("sozu is built without the `splice` feature (the harness depends on sozu-lib with default features off): lib/src/splice.rs is not exercised");
    rep.assume("after the first end-of-stream sozu ends the whole session; bytes of the opposite direction not yet delivered at that point are counted (halfclose_reverse_*_cut_exempt) but not judged, since neither the statement nor the documentation promises half-open relaying");
    rep.assume("headers longer than 16+216 bytes are 'oversized' (limit taken from expect.rs; doc/configure.md documents none); in relay mode, which has no such limit in the code, an oversized header may be relayed intact or refused");
    rep.assume("a TLV area too short to hold a TLV (1-2 padding bytes) may be accepted or refused");
    rep.assume("expect mode is exercised through the HTTP listener (`expect_proxy` + WebSocket upgrade: the payload behind the header is the upgrade request, judged on its request line and a token header, then raw bytes) as well as through the TCP listener; both use lib/src/protocol/proxy_protocol/expect.rs");
    lab::raise_fd_limit();
    if let Err(e) = pp::self_test().and_then(|_| engine::self_test()) {
        rep.broken(&format!("self-test of the independent reference failed: {e}"));
        return rep;
    }
    let shared = CellShared {
        expect_tcp_dead: AtomicBool::new(false),
        relay_dead: AtomicBool::new(false),
        relay_canary_done: AtomicBool::new(false),
        stalled: Mutex::new(Vec::new()),
        programs: Mutex::new(BTreeSet::new()),
        splits: Mutex::new(BTreeSet::new()),
    };
    let mut run_ctx = ctx.clone();
    let cells;
    if let Some(path) = &ctx.replay {
        let v: Value = serde_json::from_str(&std::fs::read_to_string(path).unwrap_or_default()).unwrap_or(Value::Null);
        if let Some(s) = v["seed"].as_u64() {
            run_ctx.seed = s;
        }
        let all = build_cells(&run_ctx);
        let wanted: BTreeSet<u64> = v["witnesses"].as_array().map(|a| a.iter().filter_map(|w| w["case"].as_u64()).collect()).unwrap_or_default();
        cells = all.into_iter().filter(|c| wanted.contains(&c.idx)).collect::<Vec<_>>();
    } else {
        cells = build_cells(ctx);
        if ctx.opt("only").is_none() && ctx.opt("kind").is_none() && ctx.opt("max_cells").is_none() {
            for k in [
                "sozu_write_wouldblock_backend_side",
                "sozu_write_wouldblock_frontend_side",
                "sessions_judged_plain",
                "sessions_judged_send",
                "sessions_judged_ws",
                "sessions_judged_expect_http",
                "paced_download_streams_outlasting_front_timeout_judged",
                "paced_upload_streams_outlasting_front_timeout_judged",
                "sessions_mode_expect",
                "sessions_mode_relay",
                "send_header_exact",
                "split_sweep_exhaustive_expect_http",
                "expect_http_header_class_local_unspec",
                "expect_http_header_class_proxy_unspec_tlv",
                "expect_http_header_class_proxy_tcp4_tlv",
                "expect_http_header_class_proxy_tcp6",
                "expect_http_header_class_proxy_unix",
                "expect_http_invalid_header_closed_nothing_forwarded",
                "bytes_relayed_client_to_backend",
                "bytes_relayed_backend_to_client",
            ] {
                rep.require(k);
            }
        }
    }
    run_ctx.threads = ctx.opt_u64("cell_threads", (ctx.threads as u64 * 3 / 2).max(4)) as usize;
    let ctxr = &run_ctx;
    // the relay canary runs in its own thread beside the pool; the other relay cells wait for it
    let (canaries, mut pool): (Vec<CellSpec>, Vec<CellSpec>) = cells.into_iter().partition(|c| c.canary);
    // the paced cells mostly sleep: start them first so that they overlap with everything else
    pool.sort_by_key(|c| !matches!(c.kind, CellKind::Paced { .. }));
    if canaries.is_empty() {
        shared.relay_canary_done.store(true, Ordering::SeqCst);
    }
    let mut canary_rep = rep.fork();
    std::thread::scope(|s| {
        let sh = &shared;
        let cr = &mut canary_rep;
        let h = std::thread::Builder::new().name("vh-cell-canary".into()).spawn_scoped(s, move || {
            for c in &canaries {
                if let Err(p) = crate::common::guard(|| run_cell(ctxr, c, cr, sh, None)) {
                    cr.broken(&format!("harness panic in canary cell: {} at {}", p.message, p.location));
                }
            }
            sh.relay_canary_done.store(true, Ordering::SeqCst);
        });
        par_cases_named(ctxr, &mut rep, pool.len() as u64, "cell", |i, r| run_cell(ctxr, &pool[i as usize], r, &shared, None));
        if let Ok(h) = h {
            let _ = h.join();
        }
    });
    rep.merge(canary_rep);

    // watchdog expiries: once more, alone, on a fresh worker
    let stalled = std::mem::take(&mut *shared.stalled.lock().unwrap());
    let max_reruns = ctx.opt_u64("max_reruns", ctx.tier.pick(4, 12)) as usize;
    for (n, (cell, spec)) in stalled.iter().enumerate() {
        if n >= max_reruns {
            rep.inconclusive("watchdog expired; isolated re-run skipped (re-run budget spent)");
            continue;
        }
        rep.obs("isolated_reruns", 1);
        run_cell(ctxr, cell, &mut rep, &shared, Some(spec));
    }

    // exhaustive sub-space: every split position of every sweep header, with and without joined payload
    let splits = shared.splits.lock().unwrap();
    let variants = sweep_variants();
    let mut table = serde_json::Map::new();
    for (mode, list) in SWEEP_MODES {
        let mut complete = true;
        for &v in *list {
            let h = &variants[v];
            let key = format!("{}/{}", mode.name(), h.class);
            let mut covered = 0;
            for pos in 0..h.bytes.len() {
                for joined in [false, true] {
                    if splits.contains(&(key.clone(), pos, joined)) {
                        covered += 1;
                    }
                }
            }
            table.insert(key, json!({"header_len": h.bytes.len(), "split_positions_x_joined_judged": covered, "of": h.bytes.len() * 2}));
            if covered != h.bytes.len() * 2 {
                complete = false;
            }
        }
        if complete && ctx.replay.is_none() {
            rep.obs(&format!("split_sweep_exhaustive_{}", mode.name()), 1);
        }
        table.insert(format!("{}/exhaustive", mode.name()), json!(complete));
    }
    rep.set("split_sweep", Value::Object(table));
    rep.obs("header_variant_x_split_positions_judged", splits.len() as u64);
    rep.obs("distinct_io_program_pairs", shared.programs.lock().unwrap().len() as u64);
    rep
}
