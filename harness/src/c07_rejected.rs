//! C07 — a rejected configuration command leaves no trace (ConfigState level).
//!
//! Direct lab on `ConfigState::dispatch`. Every command of a random history (half of them drawn
//! from the catalogue of commands with exactly one invalid field among valid ones, a missing
//! target, a duplicate or an unknown enum value) is judged against a snapshot taken before it:
//!  * `Err`  => every configuration map strictly equal to the snapshot (no bucket normalisation);
//!  * `Ok`   => only the entries the command names may differ (per-verb footprint).

use std::net::SocketAddr;

use serde_json::{Value, json};
use sozu_command_lib::{
    proto::command::{
        AddCertificate, CertificateAndKey, ListenerType, ReplaceCertificate, Request, SocketAddress,
        request::RequestType,
    },
    state::ConfigState,
};

use crate::{
    c05_roundtrip::{
        StdoutGag,
        cgen::{CERT_FIXTURES, G, Op, ops_json, req, req_json, sa, verb},
        cmp::{Delta, Mode, compare, object_count, state_sizes, strictly_equal},
        cops::{self, Cmd, fingerprint_hex, fixtures, gen_invalid, gen_op},
        replay_cases,
    },
    common::{Ctx, Report, Rng, guard, par_cases},
};

pub use crate::c05_roundtrip::DIRECTED_BASE;

mod worker;

fn addr_key(a: &SocketAddress) -> String {
    SocketAddr::from(*a).to_string()
}

fn listener_map(proxy: i32) -> Option<&'static str> {
    match ListenerType::try_from(proxy).ok()? {
        ListenerType::Http => Some("http_listeners"),
        ListenerType::Https => Some("https_listeners"),
        ListenerType::Tcp => Some("tcp_listeners"),
        ListenerType::Udp => Some("udp_listeners"),
    }
}

/// names of the fields a patch sets (non-null members of its JSON form, `address` excluded)
fn patch_fields<T: serde::Serialize>(p: &T) -> Vec<String> {
    serde_json::to_value(p)
        .ok()
        .and_then(|v| v.as_object().map(|o| o.iter().filter(|(k, v)| !v.is_null() && k.as_str() != "address").map(|(k, _)| k.clone()).collect()))
        .unwrap_or_default()
}

fn only_fields(d: &Delta, allowed: &[String]) -> bool {
    d.kind == "changed" && d.fields.iter().all(|f| allowed.contains(f))
}

/// may an *accepted* `request` cause difference `d`? (the entries the verb names, from the
/// statement; keys as built by `cmp::flatten_map`)
fn in_footprint(request: &Request, d: &Delta) -> bool {
    let Some(t) = &request.request_type else { return false };
    let base = d.map.split('#').next().unwrap_or("");
    let pseudo = d.map.contains('#');
    match t {
        RequestType::AddCluster(c) => d.map == "clusters" && d.key == c.cluster_id,
        RequestType::RemoveCluster(id) => d.map == "clusters" && &d.key == id && d.kind == "missing",
        RequestType::SetHealthCheck(s) => d.map == "clusters" && d.key == s.cluster_id && only_fields(d, &["health_check".to_owned()]),
        RequestType::RemoveHealthCheck(id) => d.map == "clusters" && &d.key == id && only_fields(d, &["health_check".to_owned()]),
        RequestType::AddHttpListener(l) => d.map == "http_listeners" && d.key == addr_key(&l.address) && d.kind == "extra",
        RequestType::AddHttpsListener(l) => d.map == "https_listeners" && d.key == addr_key(&l.address) && d.kind == "extra",
        RequestType::AddTcpListener(l) => d.map == "tcp_listeners" && d.key == addr_key(&l.address) && d.kind == "extra",
        RequestType::AddUdpListener(l) => d.map == "udp_listeners" && d.key == addr_key(&l.address) && d.kind == "extra",
        RequestType::RemoveListener(r) => Some(d.map.as_str()) == listener_map(r.proxy) && d.key == addr_key(&r.address) && d.kind == "missing",
        RequestType::ActivateListener(r) => Some(d.map.as_str()) == listener_map(r.proxy) && d.key == addr_key(&r.address) && only_fields(d, &["active".to_owned()]),
        RequestType::DeactivateListener(r) => Some(d.map.as_str()) == listener_map(r.proxy) && d.key == addr_key(&r.address) && only_fields(d, &["active".to_owned()]),
        RequestType::UpdateHttpListener(p) => d.map == "http_listeners" && d.key == addr_key(&p.address) && only_fields(d, &patch_fields(p)),
        RequestType::UpdateHttpsListener(p) => d.map == "https_listeners" && d.key == addr_key(&p.address) && only_fields(d, &patch_fields(p)),
        RequestType::UpdateTcpListener(p) => d.map == "tcp_listeners" && d.key == addr_key(&p.address) && only_fields(d, &patch_fields(p)),
        RequestType::UpdateUdpListener(p) => d.map == "udp_listeners" && d.key == addr_key(&p.address) && only_fields(d, &patch_fields(p)),
        // the key of a frontend is its documented summary "address;hostname;path[;method]"
        RequestType::AddHttpFrontend(f) => d.map == "http_fronts" && d.key == f.to_string() && d.kind == "extra",
        RequestType::RemoveHttpFrontend(f) => d.map == "http_fronts" && d.key == f.to_string() && d.kind == "missing",
        RequestType::AddHttpsFrontend(f) => d.map == "https_fronts" && d.key == f.to_string() && d.kind == "extra",
        RequestType::RemoveHttpsFrontend(f) => d.map == "https_fronts" && d.key == f.to_string() && d.kind == "missing",
        RequestType::AddTcpFrontend(f) | RequestType::RemoveTcpFrontend(f) => {
            base == "tcp_fronts" && if pseudo { d.key == f.cluster_id } else { d.key.starts_with(&format!("{}|{}|", f.cluster_id, addr_key(&f.address))) }
        }
        RequestType::AddUdpFrontend(f) | RequestType::RemoveUdpFrontend(f) => {
            base == "udp_fronts" && if pseudo { d.key == f.cluster_id } else { d.key.starts_with(&format!("{}|{}|", f.cluster_id, addr_key(&f.address))) }
        }
        RequestType::AddBackend(b) => {
            base == "backends" && if pseudo { d.key == b.cluster_id } else { d.key == format!("{}|{}|{}", b.cluster_id, b.backend_id, addr_key(&b.address)) }
        }
        RequestType::RemoveBackend(b) => {
            base == "backends" && if pseudo { d.key == b.cluster_id && d.map != "backends#bucket" } else { d.kind == "missing" && d.key == format!("{}|{}|{}", b.cluster_id, b.backend_id, addr_key(&b.address)) }
        }
        RequestType::AddCertificate(a) => {
            let addr = addr_key(&a.address);
            if d.map == "certificates#bucket" {
                d.key == addr && d.kind == "extra"
            } else {
                d.map == "certificates" && d.kind == "extra" && d.key == format!("{addr}|{}", fingerprint_hex(&a.certificate))
            }
        }
        RequestType::RemoveCertificate(r) => d.map == "certificates" && d.kind == "missing" && d.key == format!("{}|{}", addr_key(&r.address), r.fingerprint.to_lowercase()),
        RequestType::ReplaceCertificate(r) => {
            let addr = addr_key(&r.address);
            d.map == "certificates" && (d.key == format!("{addr}|{}", r.old_fingerprint.to_lowercase()) || d.key == format!("{addr}|{}", fingerprint_hex(&r.new_certificate)))
        }
        _ => false,
    }
}

/// second component of the generator label, without the parameter (":knob")
fn label_class(label: &str) -> String {
    match label.split_once('/') {
        Some((_, rest)) => rest.split([':', '/']).next().unwrap_or(rest).to_owned(),
        None => "plain".to_owned(),
    }
}

/// commands whose outcome exposes a trace, run on the snapshot and on the state after
fn probes(request: &Request, fx: &cops::Fx) -> Vec<(String, Request)> {
    let mut v = Vec::new();
    let cert = |i: usize| {
        let f = &CERT_FIXTURES[fx.certs[i % fx.certs.len()]];
        CertificateAndKey { certificate: f.cert.to_owned(), certificate_chain: vec![], key: f.key.to_owned(), versions: vec![], names: vec!["probe".to_owned()] }
    };
    match &request.request_type {
        Some(RequestType::AddCertificate(a)) => {
            v.push(("ReplaceCertificate on the same address".to_owned(), req(RequestType::ReplaceCertificate(ReplaceCertificate { address: a.address, new_certificate: cert(0), old_fingerprint: "00".to_owned(), new_expired_at: None }))));
        }
        Some(RequestType::ReplaceCertificate(r)) => {
            v.push(("ReplaceCertificate(old fingerprint -> same certificate again)".to_owned(), req(RequestType::ReplaceCertificate(ReplaceCertificate { address: r.address, new_certificate: cert(1), old_fingerprint: r.old_fingerprint.clone(), new_expired_at: None }))));
            v.push(("AddCertificate on the same address".to_owned(), req(RequestType::AddCertificate(AddCertificate { address: r.address, certificate: cert(2), expired_at: None }))));
        }
        _ => {}
    }
    v
}

struct Step<'a> {
    case: u64,
    index: usize,
    ops: &'a [Op],
    label: &'a str,
}

fn witness(ctx: &Ctx, st: &Step, request: &Request, result: &Result<(), String>, before: &ConfigState, after: &ConfigState, deltas: &[Delta], offending: &Delta) -> Value {
    let fx = fixtures();
    let probe_results: Vec<Value> = probes(request, fx)
        .into_iter()
        .map(|(name, p)| {
            let mut b = before.clone();
            let mut a = after.clone();
            let rb = b.dispatch(&p).map_err(|e| e.to_string());
            let ra = a.dispatch(&p).map_err(|e| e.to_string());
            json!({"probe": name, "on_snapshot_before": format!("{rb:?}"), "on_state_after": format!("{ra:?}"), "outcomes_differ": rb.is_ok() != ra.is_ok()})
        })
        .collect();
    let resync: Vec<String> = guard(|| before.diff(after)).unwrap_or_default().iter().map(|r| verb(r).to_owned()).collect();
    json!({"case": st.case, "seed": ctx.seed, "command_index": st.index, "label": st.label,
        "command": req_json(request), "result": format!("{result:?}"),
        "offending_difference": offending.to_json(), "before_is_left": true,
        "all_differences": deltas.iter().take(10).map(|x| json!({"map": x.map, "key": x.key, "kind": x.kind, "fields": x.fields})).collect::<Vec<_>>(),
        "probes": probe_results,
        "sozu_diff_snapshot_to_after": resync,
        "state_sizes_before": state_sizes(before),
        "history_before_command": ops_json(&st.ops[..st.index.min(st.ops.len())])})
}

/// judge one dispatched command; returns true when a violation was reported
fn judge(ctx: &Ctx, rep: &mut Report, st: &Step, request: &Request, result: &Result<(), String>, before: &ConfigState, after: &ConfigState) -> bool {
    let v = verb(request).to_owned();
    let lc = label_class(st.label);
    rep.obs("commands_judged", 1);
    match result {
        Err(_) => {
            rep.obs("rejected_commands", 1);
            rep.obs(&format!("verb:{v}:rejected"), 1);
            rep.obs(&format!("rejected:{}", st.label.split(':').next().unwrap_or(st.label)), 1);
            if strictly_equal(before, after) {
                return false;
            }
            let deltas = compare(before, after, Mode::Strict);
            let Some(d) = deltas.first() else { return false };
            rep.violation(
                &format!("rejected_command_left_trace/{v}/{lc}/{}/{}", d.map, d.kind),
                &format!("{v} ({}) was answered with an error but the configuration changed: map {} key {} ({}{})", st.label, d.map, d.key, d.kind,
                    if d.fields.is_empty() { String::new() } else { format!(": {}", d.fields.join(",")) }),
                witness(ctx, st, request, result, before, after, &deltas, d),
            );
            true
        }
        Ok(()) => {
            rep.obs("accepted_commands", 1);
            rep.obs(&format!("verb:{v}:accepted"), 1);
            if st.label.contains('/') {
                rep.obs(&format!("accepted:{}", st.label.split(':').next().unwrap_or(st.label)), 1);
            }
            let deltas = compare(before, after, Mode::Strict);
            if deltas.is_empty() {
                rep.obs("accepted_commands_without_effect", 1);
            }
            rep.obs("footprint_entries_compared", deltas.len() as u64);
            for d in &deltas {
                if in_footprint(request, d) {
                    continue;
                }
                rep.violation(
                    &format!("accepted_command_changed_unnamed_object/{v}/{}/{}", d.map, d.kind),
                    &format!("{v} ({}) was accepted and changed an entry it does not name: map {} key {} ({}{})", st.label, d.map, d.key, d.kind,
                        if d.fields.is_empty() { String::new() } else { format!(": {}", d.fields.join(",")) }),
                    witness(ctx, st, request, result, before, after, &deltas, d),
                );
                return true;
            }
            // removal by (cluster, address) that also dropped a twin with other tags: the verb
            // names cluster and address, so it is within the footprint; counted
            if let Some(RequestType::RemoveTcpFrontend(_) | RequestType::RemoveUdpFrontend(_)) = &request.request_type {
                if deltas.iter().filter(|d| !d.map.contains('#') && d.kind == "missing").count() > 1 {
                    rep.obs("exempt:frontend_removal_by_address_dropped_several_entries", 1);
                }
            }
            false
        }
    }
}

fn directed(k: u64) -> Vec<Cmd> {
    let fx = fixtures();
    let f = |i: usize, names: Vec<&str>| {
        let c = &CERT_FIXTURES[fx.certs[i % fx.certs.len()]];
        CertificateAndKey { certificate: c.cert.to_owned(), certificate_chain: vec![], key: c.key.to_owned(), versions: vec![], names: names.into_iter().map(|s| s.to_owned()).collect() }
    };
    let mut rng = Rng::new(77);
    let mut g = G::new(&mut rng, 0);
    g.oddities = false;
    let a = sa("127.0.0.1:443");
    use sozu_command_lib::proto::command::{AlpnProtocols, UpdateHttpListenerConfig, UpdateHttpsListenerConfig};
    match k {
        // listener patch: valid timeout + invalid sozu_id_header
        0 => vec![
            (req(RequestType::AddHttpListener(g.http_listener(a))), "AddHttpListener".to_owned()),
            (req(RequestType::UpdateHttpListener(UpdateHttpListenerConfig { address: a, front_timeout: Some(1), sozu_id_header: Some("a b".to_owned()), ..Default::default() })), "UpdateHttpListener/bad_sozu_id_header".to_owned()),
        ],
        1 => vec![
            (req(RequestType::AddHttpsListener(g.https_listener(a))), "AddHttpsListener".to_owned()),
            (req(RequestType::UpdateHttpsListener(UpdateHttpsListenerConfig { address: a, front_timeout: Some(1), alpn_protocols: Some(AlpnProtocols { values: vec!["spdy/3".to_owned()] }), ..Default::default() })), "UpdateHttpsListener/bad_alpn".to_owned()),
        ],
        2 => vec![
            (req(RequestType::AddHttpsListener(g.https_listener(a))), "AddHttpsListener".to_owned()),
            (req(RequestType::UpdateHttpsListener(UpdateHttpsListenerConfig { address: a, front_timeout: Some(1), sozu_id_header: Some(String::new()), ..Default::default() })), "UpdateHttpsListener/bad_sozu_id_header".to_owned()),
        ],
        // replacement by an unparsable certificate
        3 => {
            let c = f(0, vec!["x"]);
            let fp = fingerprint_hex(&c);
            let mut bad = f(1, vec!["y"]);
            bad.certificate = "garbage".to_owned();
            vec![
                (req(RequestType::AddCertificate(AddCertificate { address: a, certificate: c, expired_at: None })), "AddCertificate".to_owned()),
                (req(RequestType::ReplaceCertificate(ReplaceCertificate { address: a, new_certificate: bad, old_fingerprint: fp, new_expired_at: None })), "ReplaceCertificate/unparsable_new_certificate".to_owned()),
            ]
        }
        // replacement by a PEM block that is not X.509, without names override
        4 => {
            let Some(pem) = fx.not_x509.first() else { return vec![] };
            let c = f(0, vec!["x"]);
            let fp = fingerprint_hex(&c);
            let mut bad = f(1, vec![]);
            bad.certificate = (*pem).to_owned();
            vec![
                (req(RequestType::AddCertificate(AddCertificate { address: a, certificate: c, expired_at: None })), "AddCertificate".to_owned()),
                (req(RequestType::ReplaceCertificate(ReplaceCertificate { address: a, new_certificate: bad, old_fingerprint: fp, new_expired_at: None })), "ReplaceCertificate/pem_not_x509_empty_names".to_owned()),
            ]
        }
        // certificate that is PEM but not X.509, no names, on a fresh address
        _ => {
            let Some(pem) = fx.not_x509.first() else { return vec![] };
            let mut c = f(0, vec![]);
            c.certificate = (*pem).to_owned();
            vec![(req(RequestType::AddCertificate(AddCertificate { address: a, certificate: c, expired_at: None })), "AddCertificate/pem_not_x509_empty_names/fresh_address".to_owned())]
        }
    }
}
const DIRECTED: u64 = 6;

fn run_case(ctx: &Ctx, case: u64, rep: &mut Report) {
    let fx = fixtures();
    let mut st = ConfigState::new();
    let mut ops: Vec<Op> = Vec::new();
    let mut planned: Vec<Cmd> = Vec::new();
    let mut rng = Rng::for_case(ctx.seed, 7, case);
    let is_directed = case >= DIRECTED_BASE;
    let n_ops = if is_directed { 0 } else { rng.urange(5, ctx.tier.pick(50, 100)) };
    if is_directed {
        planned = directed(case - DIRECTED_BASE);
        planned.reverse();
    }
    let density = 1 + rng.below(3);
    let mut violations_here = 0;
    loop {
        let cmds: Vec<Cmd> = if is_directed {
            match planned.pop() {
                Some(c) => vec![c],
                None => break,
            }
        } else {
            if ops.len() >= n_ops {
                break;
            }
            let mut g = G::new(&mut rng, density);
            if g.rng.bool() { vec![gen_invalid(&mut g, &st, fx)] } else { gen_op(&mut g, &st, fx) }
        };
        for (request, label) in cmds {
            let before = st.clone();
            let result = st.dispatch(&request).map_err(|e| e.to_string());
            let step = Step { case, index: ops.len(), ops: &ops, label: &label };
            if violations_here < 4 && judge(ctx, rep, &step, &request, &result, &before, &st) {
                violations_here += 1;
                // keep judging the rest of the history from a state without the trace
                if result.is_err() {
                    st = before;
                }
            }
            ops.push(Op { req: request, label, ok: result.is_ok(), err: result.err() });
        }
    }
    let shape: Vec<u8> = ops.iter().flat_map(|o| [crate::common::rng::fnv1a(o.label.as_bytes()) as u8, o.ok as u8]).collect();
    rep.case_bytes(&shape, ops.iter().any(|o| !o.ok) && ops.iter().any(|o| o.ok));
    rep.obs_max("objects_in_state", object_count(&st) as u64);
    if case < 2 {
        rep.sample(json!({"case": case, "ops": ops.iter().take(12).map(|o| json!({"label": o.label, "ok": o.ok, "err": o.err})).collect::<Vec<_>>(), "final_state_sizes": state_sizes(&st)}));
    }
}

pub fn run(ctx: &Ctx) -> Report {
    let mut rep = Report::new(
        "exploration",
        "random histories of 5..50 commands on an initially empty ConfigState (generator shared with C05: every mutating verb, collision-rich alphabet); half of the commands come from a 56-entry catalogue of commands with exactly one invalid field among valid ones (listener patches with one flood knob at 0, shrink ratio < 2, bad ALPN value, bad sozu_id_header, unknown address; certificate replacement with unparsable certificate / bad hex / unknown address / old == new; AddCertificate with a non-PEM or non-X.509 body on fresh and known addresses; unknown listener type / rule position / path kind / LB algorithm; missing targets; duplicates; empty and non-configuration requests); every command is judged against a snapshot of the state before it; a case is non-trivial when it saw both accepted and rejected commands; distinct = distinct (label, outcome) sequences; 6 directed minimal scenarios run first",
    );
    rep.assume("level (i) only: ConfigState::dispatch; hub and worker levels belong to the hub and worker labs");
    rep.assume("footprint of an accepted command: the map entry (or, for bucketed maps, the bucket + entries with the named cluster/address/id/fingerprint) the verb names; for patches additionally only the fields present in the patch; the http(s) frontend key is the documented summary address;hostname;path[;method]; RemoveTcp/UdpFrontend names (cluster, address): dropping several entries at that address is counted as exempt, not judged");
    for k in [
        "rejected_commands",
        "accepted_commands",
        "rejected:UpdateHttpListener/bad_sozu_id_header",
        "rejected:UpdateHttpsListener/bad_alpn",
        "rejected:UpdateHttpsListener/bad_sozu_id_header",
        "rejected:UpdateHttpListener/knob_zero",
        "rejected:UpdateHttpsListener/shrink_ratio_lt_2",
        "rejected:UpdateHttpsListener/unknown_address",
        "rejected:ReplaceCertificate/unparsable_new_certificate",
        "rejected:ReplaceCertificate/bad_hex_old_fingerprint",
        "rejected:ReplaceCertificate/unknown_address",
        "rejected:ReplaceCertificate/pem_not_x509_empty_names",
        "accepted:ReplaceCertificate/pem_not_x509_explicit_names",
        "accepted:AddCertificate/pem_not_x509_explicit_names",
        "rejected:AddCertificate/pem_not_x509_empty_names",
        "accepted:ReplaceCertificate/old_equals_new",
        "rejected:AddCertificate/not_pem",
        "rejected:RemoveListener/unknown_listener_type",
        "rejected:AddHttpFrontend/unknown_rule_position",
        "rejected:AddCluster/invalid_inline_health_check",
        "rejected:SetHealthCheck/invalid_config",
        "rejected:AddHttpListener/duplicate_address",
        "rejected:AddHttpFrontend/duplicate_key",
        "rejected:RemoveBackend/unknown_id_or_address",
        "rejected:Empty/no_request_type",
        "footprint_entries_compared",
    ] {
        rep.require(k);
    }
    let fx = fixtures();
    rep.set("pem_but_not_x509_variants_available", json!(fx.not_x509.len()));
    let gag = StdoutGag::new();
    worker::requirements(&mut rep);
    if let Some((rctx, cases)) = replay_cases(ctx) {
        for c in cases {
            if c >= worker::WORKER_BASE && c < DIRECTED_BASE {
                drop(StdoutGag::new());
                worker::replay_case(&rctx, c, &mut rep);
                continue;
            }
            if let Err(p) = guard(|| run_case(&rctx, c, &mut rep)) {
                rep.broken(&format!("panic while replaying case {c}: {} at {}", p.message, p.location));
            }
        }
        drop(gag);
        return rep;
    }
    // part (b): live worker, about a third of the budget; then part (a) with what is left
    worker::run_part(ctx, &mut rep, ctx.tier.pick(0.34, 0.4));
    for k in 0..DIRECTED {
        if let Err(p) = guard(|| run_case(ctx, DIRECTED_BASE + k, &mut rep)) {
            if p.in_sozu() {
                rep.violation(&p.signature(), &format!("sozu panicked: {} at {}", p.message, p.location), json!({"case": DIRECTED_BASE + k, "seed": ctx.seed}));
            } else {
                rep.broken(&format!("harness panic in directed case {k}: {} at {}", p.message, p.location));
            }
        }
    }
    let n = ctx.opt_u64("cases", ctx.tier.pick(30_000, 1_000_000));
    par_cases(ctx, &mut rep, n, |i, r| run_case(ctx, i, r));
    drop(gag);
    rep
}
