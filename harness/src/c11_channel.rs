//! C11 — command channels deliver every message once, intact, in order, within memory bounds.
//!
//! Direct lab on `sozu_command_lib::channel::Channel` over a Unix socketpair.
//!
//! Families of cases (each case owns a fresh socketpair):
//!  * `read`      real non-blocking / blocking `Channel` reader, the harness writes the framed byte
//!                stream raw on the other end with random split points and tick skipping;
//!  * `xsplit`    the same for short sequences, *every* single split, *every* pair of splits and
//!                the byte-by-byte schedule (exhaustive sub-space);
//!  * `malformed` every malformed prefix class and payload corruption at every byte position of a
//!                short frame, with valid frames in front and behind;
//!  * `write`     real non-blocking `Channel` writer against a raw reader that reads slowly (small
//!                `SO_SNDBUF`: `writable()` really meets `EAGAIN`);
//!  * `pair`      two real non-blocking `Channel`s, traffic in both directions;
//!  * `bpair`     two real blocking `Channel`s in two threads (`write_message` / `read_message`);
//!  * `twrite`    non-blocking writer while a peer thread drains concurrently (several partial
//!                writes inside one `writable()` call).
//!
//! Oracles (from the statement, framing from the module documentation of channel.rs: native
//! `usize` little-endian length prefix holding the *total* frame length, then the prost payload):
//! delivered sequence == sent sequence; `front_buf`/`back_buf` capacity <= `max_buffer_size`
//! after every call; malformed frame => `Err`, never `Ok(garbage)`, never a panic; after an
//! in-range malformed frame the valid frames behind it are delivered within K further calls;
//! bounded work per call; a writer whose `writable()` met would-block must finish the job once
//! the peer has read everything the kernel held (SIOCOUTQ == 0 / peer read hits EAGAIN) and the
//! owner has reacted to WRITABLE 8 more times in both disciplines of the tree (`handle_events` +
//! `run()`-style gating as lib/src/server.rs, `handle_events` + unconditional `writable()` as
//! bin/src/command/sessions.rs) without queuing a new message: otherwise
//! `channel/stranded_after_would_block/<family>` (decided on these logical steps, no wall clock;
//! the only timers left are watchdogs that yield `inconclusive`).

mod drive;
mod families;
mod msg;

use serde_json::{Value, json};

use crate::common::{Ctx, Report, par_cases_named};

// small families first: when the budget runs out only the big random ones are cut short
pub const FAMILIES: &[&str] = &["xsplit", "malformed", "bpair", "twrite", "pair", "write", "read"];

pub fn run(ctx: &Ctx) -> Report {
    let mut rep = Report::new(
        "exploration",
        "each case is one socketpair with a real Channel on one or both ends: a message-size sequence (boundary-biased: prefix size, initial capacity and its doublings, max/2, max-8..max; many-small + one-huge + small), a split/tick schedule (random, or exhaustive single/pair/bytewise splits for short sequences), a driver style (server.rs loop, sessions.rs extract_messages loop, blocking), buffer sizes initial 16..1024 / max 64..65536, optionally one malformed frame (every prefix class, payload corruption at every byte position); a case is non-trivial when at least one frame was split across reads/writes or a malformed frame was injected or EAGAIN was met; distinct = distinct (family, sizes, schedule, style, buffer sizes)",
    );
    rep.assume("prost (Message::decode / encode_to_vec) is trusted as the reference for what a payload decodes to; the framing is re-implemented from the module documentation (usize LE prefix = total frame length)");
    rep.assume("a spurious Err on a well-formed stream that does not lose, duplicate or reorder a message is counted (spurious_error/*), not judged");
    rep.assume("after a frame whose declared length exceeds max_buffer_size repeated Err is accepted and resynchronisation is not required (no sane recovery exists); only Ok(garbage), growth above the ceiling and unbounded work are judged there");
    for k in [
        "messages_delivered",
        "frames_split_across_reads",
        "read_eagain_windows",
        "write_eagain_windows",
        "front_buf_grew",
        "front_buf_shrank",
        "back_buf_grew",
        "back_buf_shrank",
        "front_buf_reached_max",
        "back_buf_reached_max",
        "malformed_injected/under_prefix_length",
        "malformed_injected/over_max_length",
        "malformed_injected/undecodable_payload",
        "malformed_reported_as_err",
        "resync_after_malformed_checked",
        "exact_max_frame_sent",
        "blocking_messages_delivered",
        "pair_messages_delivered",
        "write_backpressure_rejections",
        "threaded_write_messages_delivered",
    ] {
        rep.require(k);
    }

    if let Some(path) = &ctx.replay {
        let v: Value = serde_json::from_str(&std::fs::read_to_string(path).unwrap_or_default()).unwrap_or(Value::Null);
        if let Some(ws) = v["witnesses"].as_array() {
            for w in ws {
                if let (Some(f), Some(c)) = (w["family"].as_str(), w["case"].as_u64()) {
                    families::run_case(ctx, f, c, &mut rep);
                }
            }
        }
        return rep;
    }

    let only = ctx.opt("family").map(|s| s.to_owned());
    let scale = ctx.opt_u64("scale", ctx.tier.pick(1, 12));
    let mut plan = Vec::new();
    for fam in FAMILIES {
        if let Some(o) = &only {
            if o != fam {
                continue;
            }
        }
        let n = families::case_count(fam, scale);
        let n = ctx.opt_u64(&format!("cases_{fam}"), n);
        plan.push((fam.to_string(), n));
    }
    let mut exhaustive_ok = true;
    for (fam, n) in &plan {
        let before = rep.observed.get("cases_not_started_budget_exhausted").copied().unwrap_or(0);
        par_cases_named(ctx, &mut rep, *n, fam, |i, r| families::run_case(ctx, fam, i, r));
        let after = rep.observed.get("cases_not_started_budget_exhausted").copied().unwrap_or(0);
        if (fam == "xsplit" || fam == "malformed") && after != before {
            exhaustive_ok = false;
        }
    }
    // summarise the per-bucket keys
    let fills: Vec<String> = rep.observed.keys().filter(|k| k.starts_with("write_eagain_fill/")).cloned().collect();
    rep.set("write_eagain_distinct_fill_levels_32ths", json!(fills.len()));
    for k in fills {
        rep.observed.remove(&k);
    }
    rep.set(
        "exhaustive_subspaces",
        json!({
            "xsplit": {"what": "for each listed short sequence x buffer config x driver style: the unsplit schedule, every single split position, every pair of split positions, and the byte-by-byte schedule",
                       "sequences": families::xsplit_description(), "complete": exhaustive_ok && only.as_deref().map(|o| o == "xsplit").unwrap_or(true)},
            "malformed": {"what": "under-prefix lengths 0..7, over-max lengths {max+1,max+2,2max,2^32,2^63,usize::MAX-8,usize::MAX-1,usize::MAX}, crafted undecodable payloads, xor corruption {0x01,0x80,0xff} at every payload byte of a short frame; x context (frames before/behind) x feed mode x driver style x 2 buffer configs x 2 message types",
                          "complete": exhaustive_ok && only.as_deref().map(|o| o == "malformed").unwrap_or(true)},
        }),
    );
    rep.exhaustive = Some(false);
    rep
}
